"""Declarative RDATA schemas written from the RFCs (not from the code).

Field kinds: u8 u16 u32 i32 u128  bytesN  name  cstr (length-prefixed <character-string>)
             rest (opaque bytes to the end of RDATA).
`special` types have a structured layout described in prose here and encoded by hand-written
reference encoders in the harness generators.

RFCs: 1035 (A NS MD MF CNAME SOA MB MG MR NULL WKS PTR HINFO MINFO MX TXT), 1183 (RP AFSDB X25 ISDN RT),
1706 (NSAP, NSAP-PTR), 1876 (LOC), 2230 (KX), 2782 (SRV), 3403 (NAPTR), 3596 (AAAA), 4025 (IPSECKEY),
4034 (DNSKEY RRSIG NSEC DS), 4398 (CERT), 4701 (DHCID), 6891 (OPT), 7043 (EUI48 EUI64), 8659 (CAA),
8976 (ZONEMD), 9460 (SVCB HTTPS).
"""


class T:
    def __init__(self, name, code, fields=None, wrapper=None, special=None, lifetime=True, rust=None,
                 compress_names=False):
        self.name = name            # RData variant / TYPE mnemonic in the library
        self.code = code            # IANA RR TYPE value
        self.fields = fields or []  # [(field_name, kind)]
        self.wrapper = wrapper      # 'name' | 'cstr' | 'SVCB' for newtype wrappers
        self.special = special
        self.lifetime = lifetime
        self.rust = rust or name    # rust type name under crate::rdata
        self.compress_names = compress_names   # RFC 1035 types: names in RDATA may be compressed


TYPES = [
    T("A", 1, [("address", "u32")], lifetime=False),
    T("NS", 2, wrapper="name", compress_names=True),
    T("MD", 3, wrapper="name", compress_names=True),
    T("MF", 4, wrapper="name", compress_names=True),
    T("CNAME", 5, wrapper="name", compress_names=True),
    T("SOA", 6, [("mname", "name"), ("rname", "name"), ("serial", "u32"), ("refresh", "i32"),
                 ("retry", "i32"), ("expire", "i32"), ("minimum", "u32")], compress_names=True),
    T("MB", 7, wrapper="name", compress_names=True),
    T("MG", 8, wrapper="name", compress_names=True),
    T("MR", 9, wrapper="name", compress_names=True),
    T("WKS", 11, [("address", "u32"), ("protocol", "u8"), ("bit_map", "rest")]),
    T("PTR", 12, wrapper="name", compress_names=True),
    T("HINFO", 13, [("cpu", "cstr"), ("os", "cstr")]),
    T("MINFO", 14, [("rmailbox", "name"), ("emailbox", "name")], compress_names=True),
    T("MX", 15, [("preference", "u16"), ("exchange", "name")], compress_names=True),
    T("TXT", 16, special="one or more <character-string>s"),
    T("RP", 17, [("mbox", "name"), ("txt", "name")], compress_names=True),
    T("AFSDB", 18, [("subtype", "u16"), ("hostname", "name")], compress_names=True),
    T("ISDN", 20, [("address", "cstr"), ("sa", "cstr")]),
    T("RouteThrough", 21, [("preference", "u16"), ("intermediate_host", "name")], compress_names=True),
    T("NSAP", 22, special="20-byte ATM-format NSAP: afi8 idi16 dfi8 aa24 rsvd16 rd16 area16 id48 sel8",
      lifetime=False),
    T("NSAP_PTR", 23, wrapper="name", compress_names=True),
    T("AAAA", 28, [("address", "u128")], lifetime=False),
    T("LOC", 29, [("version", "u8"), ("size", "u8"), ("horizontal_precision", "u8"),
                  ("vertical_precision", "u8"), ("latitude", "i32"), ("longitude", "i32"),
                  ("altitude", "i32")], lifetime=False),
    T("SRV", 33, [("priority", "u16"), ("weight", "u16"), ("port", "u16"), ("target", "name")]),
    T("NAPTR", 35, [("order", "u16"), ("preference", "u16"), ("flags", "cstr"), ("services", "cstr"),
                    ("regexp", "cstr"), ("replacement", "name")]),
    T("KX", 36, [("preference", "u16"), ("exchanger", "name")]),
    T("CERT", 37, [("type_code", "u16"), ("key_tag", "u16"), ("algorithm", "u8"), ("certificate", "rest")]),
    T("OPT", 41, special="{option-code16 option-length16 option-data}*"),
    T("DS", 43, [("key_tag", "u16"), ("algorithm", "u8"), ("digest_type", "u8"), ("digest", "rest")]),
    T("IPSECKEY", 45, special="precedence8 gateway-type8 algorithm8 gateway(none|ipv4|ipv6|name) public-key"),
    T("RRSIG", 46, [("type_covered", "u16"), ("algorithm", "u8"), ("labels", "u8"), ("original_ttl", "u32"),
                    ("signature_expiration", "u32"), ("signature_inception", "u32"), ("key_tag", "u16"),
                    ("signer_name", "name"), ("signature", "rest")]),
    T("NSEC", 47, special="next-name {window8 len8 bitmap[len]}* (windows strictly increasing)"),
    T("DNSKEY", 48, [("flags", "u16"), ("protocol", "u8"), ("algorithm", "u8"), ("public_key", "rest")]),
    T("DHCID", 49, [("identifier", "u16"), ("digest_type", "u8"), ("digest", "rest")]),
    T("ZONEMD", 63, [("serial", "u32"), ("scheme", "u8"), ("algorithm", "u8"), ("digest", "rest")]),
    T("SVCB", 64, special="priority16 target-name {key16 len16 value[len]}* (keys strictly increasing)"),
    T("HTTPS", 65, wrapper="SVCB"),
    T("EUI48", 108, [("address", "bytes6")], lifetime=False),
    T("EUI64", 109, [("address", "bytes8")], lifetime=False),
    T("CAA", 257, [("flag", "u8"), ("tag", "cstr"), ("value", "rest")]),
]
NULL_CODE = 10

BY_NAME = {t.name: t for t in TYPES}

WIDTH = {"u8": 1, "u16": 2, "u32": 4, "i32": 4, "u128": 16, "bytes6": 6, "bytes8": 8}

# QTYPE specials (RFC 1035 3.2.3, RFC 1995) and classes (RFC 1035 3.2.4, RFC 2136)
QTYPE_SPECIAL = {"IXFR": 251, "AXFR": 252, "MAILB": 253, "MAILA": 254, "ANY": 255}
CLASSES = {"IN": 1, "CS": 2, "CH": 3, "HS": 4, "NONE": 254}
QCLASS_ANY = 255
MAILB_GROUP = ["MB", "MG", "MR"]
