"""Generate Kani harness source from the RFC schema (spec/rdata_schema.py).

generate(tier) -> {file name under src/dns/verif_kani/: text}.  The generated modules are declared in
/verif/kani/mod.rs (`mod gen_tables; mod gen_c01; ...`).
"""
from . import rdata_schema as S

HDR = "// GENERATED at run time by /verif/spec/gen_kani.py from spec/rdata_schema.py - do not edit\n"


def rust_ty(t):
    return "crate::rdata::%s" % t.rust


def gen_tables():
    o = [HDR, "use crate::TYPE;\nuse crate::rdata::RR;\n"]
    o.append("/// IANA code of every TYPE value the library names (Unknown carries its own code)\n"
             "pub fn ref_code_of(t: TYPE) -> u16 {\n    match t {\n")
    for t in S.TYPES:
        o.append("        TYPE::%s => %d,\n" % (t.name, t.code))
    o.append("        TYPE::NULL => %d,\n        TYPE::Unknown(x) => x,\n    }\n}\n\n" % S.NULL_CODE)
    o.append("/// mnemonic for an IANA code; unsupported codes are Unknown(code)\n"
             "pub fn ref_type_of(code: u16) -> TYPE {\n    match code {\n")
    for t in S.TYPES:
        o.append("        %d => TYPE::%s,\n" % (t.code, t.name))
    o.append("        %d => TYPE::NULL,\n        v => TYPE::Unknown(v),\n    }\n}\n\n" % S.NULL_CODE)
    o.append("pub fn is_supported_code(code: u16) -> bool {\n    matches!(code, %s)\n}\n\n" % (
        " | ".join(str(c) for c in sorted([t.code for t in S.TYPES] + [S.NULL_CODE]))))
    o.append("pub fn is_mailb_member(code: u16) -> bool {\n    matches!(code, %s)\n}\n\n" % (
        " | ".join(str(S.BY_NAME[n].code) for n in S.MAILB_GROUP)))
    o.append("/// the per-type TYPE_CODE constants\npub fn check_type_code_consts() {\n")
    for t in S.TYPES:
        lt = "<'static>" if t.lifetime else ""
        o.append("    assert_eq!(<crate::rdata::%s%s as RR>::TYPE_CODE, %d);\n" % (t.rust, lt, t.code))
    o.append("    assert_eq!(<crate::rdata::NULL<'static> as RR>::TYPE_CODE, %d);\n}\n" % S.NULL_CODE)
    return "".join(o)


# ---------------------------------------------------------------- minimal values of every variant
def default_expr(kind):
    if kind in ("u8", "u16", "u32", "i32", "u128"):
        return "0"
    if kind == "bytes6":
        return "[0u8; 6]"
    if kind == "bytes8":
        return "[0u8; 8]"
    if kind == "name":
        return "Name::new_with_labels(&[])"
    if kind == "cstr":
        return "CharacterString::new(&[]).unwrap()"
    if kind == "rest":
        return "Cow::Borrowed(&[][..])"
    raise ValueError(kind)


def minimal_value(t):
    R = "crate::rdata::"
    if t.wrapper == "name":
        return "%s%s(Name::new_with_labels(&[]))" % (R, t.rust)
    if t.wrapper == "cstr":
        return "%s%s(CharacterString::new(&[]).unwrap())" % (R, t.rust)
    if t.wrapper == "SVCB":
        return "%s%s(%sSVCB::new(0, Name::new_with_labels(&[])))" % (R, t.rust, R)
    if t.name == "TXT":
        return R + "TXT::new()"
    if t.name == "NSAP":
        return R + "NSAP { afi: 0, idi: 0, dfi: 0, aa: 0, rsvd: 0, rd: 0, area: 0, id: 0, sel: 0 }"
    if t.name == "OPT":
        return R + "OPT { opt_codes: Vec::new(), udp_packet_size: 0, version: 0 }"
    if t.name == "IPSECKEY":
        return (R + "IPSECKEY { precedence: 0, algorithm: 0, gateway: crate::rdata::Gateway::None, "
                "public_key: Cow::Borrowed(&[][..]) }")
    if t.name == "NSEC":
        return R + "NSEC { next_name: Name::new_with_labels(&[]), type_bit_maps: Vec::new() }"
    if t.name == "SVCB":
        return R + "SVCB::new(0, Name::new_with_labels(&[]))"
    fields = ", ".join("%s: %s" % (f, default_expr(k)) for f, k in t.fields)
    return "%s%s { %s }" % (R, t.rust, fields)


def gen_c18_variants():
    o = [HDR, "use std::borrow::Cow;\nuse crate::{CharacterString, Name, TYPE};\nuse crate::rdata::RData;\n"
         "use super::gen_tables::*;\n\n"]
    # one harness per chunk of variants keeps each CBMC run small
    chunks = [S.TYPES[i:i + 8] for i in range(0, len(S.TYPES), 8)]
    names = []
    for ci, chunk in enumerate(chunks):
        hn = "typecode_variants_%d" % ci
        names.append(hn)
        o.append("#[kani::proof]\n#[kani::unwind(3)]\nfn %s() {\n" % hn)
        for t in chunk:
            o.append("    {\n        let v = RData::%s(%s);\n" % (t.name, minimal_value(t)))
            o.append("        let tc = v.type_code();\n")
            o.append("        assert!(tc == TYPE::%s, \"type_code of variant %s\");\n" % (t.name, t.name))
            o.append("        assert!(u16::from(tc) == %d, \"IANA code of %s\");\n" % (t.code, t.name))
            o.append("        std::mem::forget(v);\n    }\n")
        o.append("    kani::cover!(true);\n}\n\n")
    return "".join(o), names


# types whose parser loops over a BTreeMap / symbolic-length bitmap: CBMC does not converge, engine M decides them
K_SKIP = ("NSEC", "SVCB", "HTTPS", "TXT", "OPT")

# ---------------------------------------------------------------- C01: typed parsers never panic
def gen_c01(tier):
    L = 28 if tier == "thorough" else 24
    o = [HDR, """use crate::dns::WireFormat;
use crate::dns::name::Name;
use super::util::name_parse_stub;

/// Pre-condition established by the only caller (RData::parse): the typed parser receives the message
/// cut at the end of the RDATA, `&data[..position + rdlength]`, with rdlength >= 1, i.e.
/// `*position < data.len()`.  Everything else is symbolic: all bytes, the cut n <= %d, the cursor.
macro_rules! parse_nopanic {
    ($h:ident, $t:ty) => {
        #[kani::proof]
        #[kani::unwind(%d)]
        #[kani::stub(<crate::dns::name::Name as crate::dns::wire_format::WireFormat>::parse, name_parse_stub)]
        fn $h() {
            let data: [u8; %d] = kani::any();
            let n: usize = kani::any();
            kani::assume(n <= %d);
            let mut pos: usize = kani::any();
            kani::assume(pos < n);
            let start = pos;
            let r = <$t as WireFormat>::parse(&data[..n], &mut pos);
            if r.is_ok() {
                assert!(pos <= n, "cursor stays inside the RDATA cut");
                assert!(pos >= start, "cursor never moves backwards");
            }
            kani::cover!(r.is_ok());
            std::mem::forget(r);
        }
    };
}

""" % (L, L + 2, L, L)]
    names = []
    for t in S.TYPES:
        if t.name in K_SKIP:
            continue
        hn = "rdata_%s" % t.name.lower()
        lt = "<'_>" if t.lifetime else ""
        o.append("parse_nopanic!(%s, crate::rdata::%s%s);\n" % (hn, t.rust, lt))
        names.append(hn)
    o.append("parse_nopanic!(rdata_null, crate::rdata::NULL<'_>);\n")
    names.append("rdata_null")
    o.append("parse_nopanic!(rdata_x25, crate::rdata::X25<'_>);\n")
    names.append("rdata_x25")
    return "".join(o), names


def generate(tier):
    v, _ = gen_c18_variants()
    c01, _ = gen_c01(tier)
    return {"gen_tables.rs": gen_tables(), "gen_c18.rs": v, "gen_c01.rs": c01}


def c18_variant_harnesses():
    return gen_c18_variants()[1]


def c01_rdata_harnesses():
    return gen_c01("quick")[1]
