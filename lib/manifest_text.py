"""Per-property texts for MANIFEST.json."""
TEXT = {
 "C08": {
  "level": "Bounded model checking of the compiled Header/header_buffer code: each harness is one SAT query over ALL "
           "values of the symbolic header bytes / flag words (2^96 headers, 2^16 x 2^16 flag pairs), compared with the "
           "RFC 1035 4.1.1 bit layout written independently as shifts and masks. Within the 12-byte header this is "
           "exhaustive, which is the whole domain of the property.",
  "design_ref": "DESIGN.md section 3 C08",
  "note": "Trusted: Kani/CBMC/CaDiCaL; the RFC layout constants in kani/util.rs. Packet-level accessors are field "
          "delegations to Header (Packet values cannot be dropped inside CBMC because of RData drop glue).",
  "technique": "Kani/CBMC bounded model checking (SAT) of the real code, fully symbolic header words",
 },
}

def _t(level, ref, note, tech):
    return {"level": level, "design_ref": ref, "note": note, "technique": tech}


TEXT.update({
 "C01": _t("Bounded model checking (Kani/CBMC) of the header-peek functions, Header::parse, CharacterString::parse and every typed "
           "RDATA parser over fully symbolic buffers (all byte values, every cut point, every cursor) within the stated byte "
           "bounds, plus mirsym symbolic execution of the real Name::parse MIR for every buffer up to the stated length and an "
           "inductive loop-head step for any length. No-panic and cursor-in-bounds are assertions decided by SAT/SMT.",
           "DESIGN.md section 3 C01",
           "Kani harnesses replace Name::parse by its contract stub (discharged by engine M). Time/heap are covered as iteration "
           "and allocation-request bounds, not measured. Inputs beyond the byte bounds are covered only by the inductive step obligations.",
           "Kani/CBMC bounded model checking + MIR symbolic execution with z3 (bounded runs and inductive step)"),
 "C06": _t("Differential symbolic execution: the real Name::parse MIR and an RFC 1035 4.1.4 reference decoder are executed on the "
           "same fully symbolic buffer and start offset; z3 is asked for any input on which accept/reject, any label range or the "
           "resume position differ. Exhaustive over all 256^L buffers for each length up to the bound, plus boundary layouts (63/64-byte labels, "
           "254-256 octet names, a fully symbolic length octet), an inductive loop contract for any length, and - at packet level - names inside the "
           "RDATA of all 23 name-bearing types given as message-relative pointers.",
           "DESIGN.md section 3 C06 and 8.2",
           "Trusted: rustc MIR dump, the mirsym interpreter and std models, z3, the reference decoder. Paths hitting the loop bound are outside the claim.",
           "MIR symbolic execution + z3, differential against an RFC reference decoder"),
 "C09": _t("Kani/CBMC over all TTL words, versions and named rcodes for the EDNS TTL packing (encode, decode, OPT::parse fixed part) against "
           "the RFC 6891 6.1.3 layout written independently.", "DESIGN.md section 3 C09",
           "Wire-level OPT placement/ARCOUNT obligations are engine-M work; this check decides the bit layout and the fixed part of OPT parsing.",
           "Kani/CBMC bounded model checking (SAT), fully symbolic TTL words"),
 "C17": _t("Kani/CBMC: Label::new accepts exactly the label grammar of the statement for every byte string of length 0..6 and 60..66 "
           "(all byte values), oracle written independently.", "DESIGN.md section 3 C17",
           "Name-level obligations (dot splitting, 255 limit, display round trip, suffix algebra) are engine-M work.",
           "Kani/CBMC bounded model checking (SAT) of Label::new vs independent grammar oracle"),
 "C18": _t("Kani/CBMC over the full 16-bit code space (symbolic) for TYPE/CLASS/QTYPE/QCLASS conversions against the IANA table generated "
           "from the RFC schema, match_qtype/match_qclass over all supported pairs, type_code() of a minimal value of each of the 42 variants "
           "and of parsed NULL/unknown/empty records.", "DESIGN.md section 3 C18",
           "AXFR/IXFR/MAILA are outside the property's quantifier. Name::parse stubbed in the parsed-record harness.",
           "Kani/CBMC bounded model checking (SAT), symbolic 16-bit codes"),
 "C19": _t("Kani/CBMC: character-string construction accepts exactly lengths <= 255 (every length 0..300) and the length octet written "
           "is exact.", "DESIGN.md section 3 C19",
           "TXT chunking / attribute obligations are engine-M work.",
           "Kani/CBMC bounded model checking (SAT), symbolic lengths"),
})
_RR = ("Symbolic execution (mirsym + z3) of the real ResourceRecord::write_to / len / parse MIR, per record type, over records whose "
       "every integer and byte is a full-width symbol (shapes enumerated): z3 is asked for any field values on which (a) the bytes "
       "written differ from the RFC reference encoding produced by an independent schema encoder, (b) len()/RDLENGTH differ from the "
       "bytes written, (c) parsing the reference encoding does not return the original record with the cursor at its end. "
       "Counter-examples are turned into a Rust test and replayed natively before being reported.")
TEXT.update({
 "C02": _t(_RR, "DESIGN.md section 3 C02", "Per-record part of C02 (all 41 typed variants + NULL/unknown); packet-level assembly "
           "(sections, header, OPT placement) is separate work. Validity predicates assumed are listed in the evidence file.",
           "MIR symbolic execution + z3: write->reference bytes, reference bytes->parse, field equality"),
 "C04": _t(_RR, "DESIGN.md section 3 C04", "Decides RDLENGTH == RDATA bytes and len() == bytes written for every record type; "
           "header counts and writer kinds are separate obligations.",
           "MIR symbolic execution + z3: len()/RDLENGTH vs bytes written by the real write_to"),
 "C10": _t(_RR, "DESIGN.md section 3 C10", "Reference encodings come from spec/rdata_schema.py written from the RFCs; type codes are "
           "additionally decided by the C18 Kani harnesses.",
           "MIR symbolic execution + z3, differential against an RFC schema encoder"),
})
_PK = ("Symbolic execution (mirsym + z3) of the real Packet::build_bytes_vec / build_bytes_vec_compressed / Packet::parse MIR over packets "
       "assembled from parts with every id, flag, TTL, integer field and label byte a full-width symbol (section shapes per scenario): z3 is "
       "asked for values on which an independent RFC 1035 envelope walker disagrees with the header counts / RDLENGTHs / end of output, "
       "parse(plain) differs from the packet built, or parse(compressed) differs from parse(plain) or is longer.")
TEXT.update({
 "C03": _t(_PK, "DESIGN.md section 3 C03", "Suffix sharing is forced through shared symbolic labels; messages beyond 16383 bytes are decided by the "
           "separate C03.far obligation when registered.", "MIR symbolic execution + z3: compressed vs plain serialisation, parse equality"),
 "C13": _t("Symbolic execution of the real simple-mdns store and reply builder MIR (radix trie, hash maps modelled) over registered records and "
           "queries whose names are built from shared symbolic labels so that the solver chooses collisions; the reply is compared with the "
           "set-theoretic statement (soundness for answers/additional, completeness for exact owners, id/flag/unicast, None iff no match); "
           "the trie-key lemma (prefix <=> subdomain) is decided for all label bytes.", "DESIGN.md section 3 C13",
           "Trusted: radix_trie model written from the crate source, HashMap model with insertion-order iteration. Store sizes <= 3 records, <= 2 questions.",
           "MIR symbolic execution + z3 against a set-theoretic reply oracle"),
 "C20": _t("Symbolic execution of the real record-store MIR along operation histories with a symbolic monotone clock: for every TTL and flush bit "
           "z3 is asked for clock values on which a filter returns the record although the statement forbids it or vice versa.",
           "DESIGN.md section 3 C20", "Clock, trie and hash map are models; histories of <= 3 operations on one record key.",
           "MIR symbolic execution + z3 with a symbolic clock"),
})
TEXT.update({
 "C05": _t("Symbolic execution of the real Packet::parse MIR on messages header|record1|record2 where record1 has every supported type and every "
           "RDLENGTH 0..K with fully symbolic RDATA: z3 is asked for bytes on which parsing succeeds but the second answer is not the A record at "
           "the position an independent RFC 1035 envelope walker computes, or a message running past its end is accepted.",
           "DESIGN.md section 3 C05", "Names inside RDATA are abstracted by the Name::parse contract; two records per message (the section loop adds "
           "nothing per iteration beyond the cursor).", "MIR symbolic execution + z3 against an RFC 1035 envelope walker"),
})
TEXT.update({
 "C07": _t("Symbolic execution of the real compressed serialisation MIR; an independent schema-aware walker (written from RFC 1035 4.1.4 and the "
           "per-type RFCs) locates every name in the output and z3/the path condition decide: pointers are message-relative, strictly backwards, "
           "<= 16383, land on a label start of an earlier name; must-not-compress RDATA names are in full; repeated names are 2-byte pointers; "
           "writer offsets 2/5 give identical bytes; names beyond offset 16383 are never pointer targets.", "DESIGN.md section 3 C07",
           "Scenario shapes are concrete; label contents, ids, TTLs and integer fields symbolic. The HashMap of name references is a model.",
           "MIR symbolic execution + z3 with an independent pointer walker"),
})
TEXT.update({
 "C16": _t("Symbolic execution of the real clone / into_owned / PartialEq / Hash MIR of records of every type: z3 is asked for field values on "
           "which an owned copy differs field-wise, does not compare equal, serialises differently, or on which two equal records feed "
           "different byte streams to a recording hasher.", "DESIGN.md section 3 C16",
           "Hasher modelled as a recorder of the write stream; shapes concrete, contents symbolic.",
           "MIR symbolic execution + z3 (owned-copy equality, eq => hash-stream equality)"),
})
TEXT.update({
 "C12": _t("Symbolic execution of the real formatting / conversion / comparison MIR on records parsed from encodings whose every name, string and "
           "blob byte is symbolic: any path on which an observer panics (unwrap on non-UTF-8, fmt::Error turned into a to_string panic, index, "
           "overflow) is a counter-example; z3 decides UTF-8 validity exactly.", "DESIGN.md section 3 C12",
           "core::fmt machinery modelled; observers listed in the evidence; inputs are reference encodings of every type (shapes bounded).",
           "MIR symbolic execution + z3, panic-freedom of observers"),
})
TEXT.update({
 "C11": _t("Symbolic execution of parse -> build -> parse on fully/partly symbolic received messages: for every path on which the real parser "
           "accepts, both serialisers must succeed and z3 is asked for bytes on which the re-parsed packet differs from the first in any field.",
           "DESIGN.md section 3 C11", "Bounded message shapes (see evidence). One known finding is listed in known_findings.txt (unnamed RCODEs).",
           "MIR symbolic execution + z3: parse/re-serialise/parse equality on symbolic inputs"),
})
TEXT.update({
 "C14": _t("The pure handling pipeline is decided piece by piece on the real code: header peeks on every short datagram (Kani), Name::parse / "
           "Packet::parse panic-freedom and termination (mirsym, bounded + inductive), answering a query and ingesting a response against stores "
           "with hostile names (mirsym on the simple-mdns MIR), and every reply produced re-parses.", "DESIGN.md section 3 C14",
           "Not covered by this technique: sockets, threads, lock poisoning as scheduling, tokio executor. Trie/HashMap/clock are models.",
           "Kani/CBMC + MIR symbolic execution with z3 over the sequential handling functions"),
 "C15": _t("Symbolic execution of the discovery chain on the real MIR: the end-to-end chain instance -> into_records -> compressed packet -> "
           "parse -> from_records with symbolic names, addresses, ports, TTL and attributes under every hash-container iteration order "
           "(same name, address set, port set, attribute map; one A/AAAA/SRV per member, one TXT), plus the pieces: escaping round trip over all "
           "short Unicode strings, attribute map <-> TXT, announced record kinds across the compressed wire, and the ingest filter (never own "
           "instance / service name / non-subdomain; always the admissible records).", "DESIGN.md section 3 C15 and 8.2",
           "The socket transport and the store between ingest and from_records are not part of the end-to-end run (decided separately).",
           "MIR symbolic execution + z3 over the discovery chain, counter-examples replayed natively"),
})
NA_REASON = {}
