"""Per-property texts for MANIFEST.json."""
TEXT = {
 "C08": {
  "level": "Bounded model checking of the compiled Header/header_buffer code: each harness is one SAT query over ALL "
           "values of the symbolic header bytes / flag words (2^96 headers, 2^16 x 2^16 flag pairs), compared with the "
           "RFC 1035 4.1.1 bit layout written independently as shifts and masks. Within the 12-byte header this is "
           "exhaustive, which is the whole domain of the property.",
  "design_ref": "DESIGN.md section 3 C08",
  "note": "Trusted: Kani/CBMC/CaDiCaL; the RFC layout constants in kani/util.rs. Packet-level accessors are field "
          "delegations to Header (Packet values cannot be dropped inside CBMC because of RData drop glue).",
  "technique": "Kani/CBMC bounded model checking (SAT) of the real code, fully symbolic header words",
 },
}
NA_REASON = {}
