"""Driver: runs the obligations registered for one property and writes its evidence file."""
import argparse, json, os, re, sys, time, traceback, shutil

sys.path.insert(0, os.path.dirname(os.path.dirname(os.path.abspath(__file__))))
from lib import common, kani_runner as K          # noqa: E402
from lib import registry                           # noqa: E402


def slug(s):
    return re.sub(r"[^A-Za-z0-9]+", "-", s).strip("-")[:80]


def classify_failed_check(desc):
    d = desc.lower()
    if "unwinding assertion" in d:
        return "bound"
    return "violation"


def save_cex(prop, name, payload):
    d = os.path.join(common.CEX_DIR, prop)
    os.makedirs(d, exist_ok=True)
    path = os.path.join(d, slug(name) + ".json")
    with open(path, "w") as f:
        json.dump(payload, f, indent=1, default=str)
    return path


def run_property(prop, tier):
    t0 = time.time()
    obls = [o for o in registry.obligations(prop) if tier in o.tiers]
    if not obls:
        print("no obligations registered for %s at tier %s" % (prop, tier))
        return common.EXIT_INCONCLUSIVE
    known = common.Known()
    kobl = [o for o in obls if o.engine == "K"]
    mobl = [o for o in obls if o.engine == "M"]
    results = []          # dicts: id, engine, status(ok|violation|known|inconclusive), detail...
    out_lines = []
    exit_code = common.EXIT_OK
    solver_s = 0.0
    evaluations = 0
    samples = []
    functions = set()
    trusted = set()

    # ---------------------------------------------------------------- engine K
    if kobl:
        overlay = common.scratch_dir("verif-k-")
        gen = registry.generated_kani_files(tier)
        K.build_overlay(overlay, gen)
        timeout = max(o.timeout(tier) for o in kobl)
        names = [o.target for o in kobl]
        weights = {o.target: o.weight for o in kobl}
        res, logs = K.run_harnesses(overlay, names, jobs=int(os.environ.get("VERIF_JOBS", "16")),
                                    timeout_s=timeout, weights=weights)
        trusted.update(["Kani 0.68.0 (rustc MIR -> goto-program)", "CBMC 6.11.0 + CaDiCaL (SAT)"])
        for o in kobl:
            r = res[o.target]
            solver_s += r.time_s
            evaluations += r.checks_total + r.covers[1]
            functions.update(o.functions)
            entry = {"id": o.id, "engine": "K", "harness": o.target, "bounds": o.bounds,
                     "cbmc_checks": r.checks_total, "covers": list(r.covers), "solver_s": r.time_s}
            if r.status == "SUCCESS":
                if r.covers[0] != r.covers[1]:
                    entry["status"] = "inconclusive"
                    entry["detail"] = "cover witness not satisfied (possibly vacuous harness)"
                else:
                    entry["status"] = "ok"
            elif r.status == "FAILED":
                kinds = {classify_failed_check(d) for d, _ in r.failed_checks}
                if not r.failed_checks:
                    # e.g. only a cover failed/unreachable
                    entry["status"] = "inconclusive"
                    entry["detail"] = "FAILED without failed checks: " + r.log[-600:]
                elif kinds == {"bound"}:
                    entry["status"] = "inconclusive"
                    entry["detail"] = "unwinding bound too small: %s" % (r.failed_checks[:2],)
                else:
                    # replay natively before reporting
                    pbs, pout = K.playback_for(overlay, o.target, timeout_s=timeout)
                    rep_dev = rep_rel = False
                    pb = None
                    for cand in pbs[:6]:
                        pb = cand
                        rep_dev, out_dev = K.native_replay(overlay, o.target, cand, release=False)
                        if not rep_dev:
                            rep_rel, out_rel = K.native_replay(overlay, o.target, cand, release=True)
                        if rep_dev or rep_rel:
                            break
                    checks = [d for d, _ in r.failed_checks if classify_failed_check(d) == "violation"]
                    entry["failed_checks"] = r.failed_checks[:8]
                    entry["replayed"] = {"dev": rep_dev, "release": rep_rel}
                    if not pb or not (rep_dev or rep_rel):
                        entry["status"] = "inconclusive"
                        entry["detail"] = "counter-example did not reproduce natively (playback %s)" % (
                            "missing" if not pb else "ran clean")
                    else:
                        unknown = []
                        for d in checks:
                            key = "%s:%s" % (o.id, slug(d))
                            what = known.match(prop, key)
                            if what is not None:
                                out_lines.append("KNOWN-FINDING: property=%s %s [%s]" % (prop, what, key))
                            else:
                                unknown.append((key, d))
                        if unknown:
                            path = save_cex(prop, o.id, {
                                "property": prop, "obligation": o.id, "engine": "K", "harness": o.target,
                                "failed_checks": r.failed_checks, "playback_test": pb,
                                "replayed": entry["replayed"], "keys": [k for k, _ in unknown]})
                            entry["status"] = "violation"
                            entry["replay"] = path
                            out_lines.append("VIOLATION property=%s replay=%s" % (prop, path))
                            out_lines.append("  obligation %s: %s" % (o.id, "; ".join(d for _, d in unknown)[:400]))
                        else:
                            entry["status"] = "known"
            else:
                entry["status"] = "inconclusive"
                entry["detail"] = "%s: %s" % (r.status, r.log[-800:])
            results.append(entry)

    # ---------------------------------------------------------------- engine M
    if mobl:
        from mirsym import runner as M
        mres = M.run_obligations(prop, mobl, tier)
        trusted.update(M.TRUSTED_BASE)
        for o, r in zip(mobl, mres):
            solver_s += r.get("solver_s", 0.0)
            evaluations += r.get("queries", 0)
            functions.update(r.get("functions", o.functions))
            entry = {"id": o.id, "engine": "M", "bounds": o.bounds}
            entry.update({k: v for k, v in r.items() if k not in ("cex",)})
            entry.pop("violations", None)
            if r["status"] == "violation":
                new_found = False
                for v in [v for v in r.get("violations", []) if v["confirmed"]]:
                    key = "%s:%s" % (o.id, v["role"])
                    what = known.match(prop, key)
                    if what is not None:
                        out_lines.append("KNOWN-FINDING: property=%s %s [%s]" % (prop, what, key))
                        continue
                    new_found = True
                    path = save_cex(prop, o.id + ("" if v["role"] in ("any",) else "-" + v["role"]),
                                    {"property": prop, "obligation": o.id, "engine": "M",
                                     "key": key, "cex": v.get("cex"), "detail": v.get("detail")})
                    entry["replay"] = path
                    out_lines.append("VIOLATION property=%s replay=%s" % (prop, path))
                    out_lines.append("  obligation %s: %s" % (o.id, str(v.get("detail"))[:400]))
                if not new_found:
                    # only listed findings reproduced; an unconfirmed counter-example still refuses a pass
                    entry["status"] = "inconclusive" if r.get("unconfirmed") else "known"
                    if r.get("unconfirmed"):
                        entry["detail"] = r["unconfirmed"]
            results.append(entry)

    nviol = sum(1 for e in results if e["status"] == "violation")
    ninc = sum(1 for e in results if e["status"] == "inconclusive")
    nok = sum(1 for e in results if e["status"] in ("ok", "known"))
    if nviol:
        exit_code = common.EXIT_VIOLATION
    elif ninc:
        exit_code = common.EXIT_INCONCLUSIVE

    for e in results:
        line = "%-14s %-34s %s" % (e["status"].upper(), e["id"], e.get("bounds", ""))
        print(line)
        if e["status"] == "inconclusive":
            print("    " + str(e.get("detail", ""))[:1500].replace("\n", "\n    "))
    for l in out_lines:
        print(l)

    nontrivial = sum(1 for e in results if e["status"] in ("ok", "known") and
                     (e.get("covers", [1, 1])[1] > 0 or e.get("covers_witnessed", 0) > 0))
    states = sum(e.get("paths", 0) + e.get("cbmc_checks", 0) for e in results)
    transitions = sum(e.get("queries", 0) + e.get("cbmc_checks", 0) + (e.get("covers", [0, 0])[1] if isinstance(e.get("covers"), list) else 0)
                      for e in results)
    replays = sum(1 for e in results if e.get("replayed") or e.get("replay")) + sum(e.get("traces_validated", 0) for e in results)
    coverage = {
        "states": max(1, states),
        "transitions": max(1, transitions),
        "traces_validated_against_impl": replays,
        "states_rule": "states = symbolic-execution paths explored by mirsym + program checks encoded by CBMC; transitions = "
                       "SMT feasibility/deciding queries + CBMC checks and cover goals; traces_validated_against_impl = "
                       "counter-examples replayed natively against the real build in this run",
        "obligations": len(results),
        "discharged": nok,
        "inconclusive": ninc,
        "evaluations": max(1, evaluations),
        "distinct_nontrivial": nontrivial,
        "rule": ("one case = one solver-decided obligation (a Kani harness or a mirsym query family) over all "
                 "values of its symbolic inputs within the stated bounds; evaluations = CBMC property checks + "
                 "cover goals + z3 deciding queries; an obligation counts as non-trivial only if all of its "
                 "reachability/cover witnesses were satisfied (non-vacuous)"),
        "samples": [{k: e[k] for k in ("id", "engine", "bounds", "status") if k in e} for e in results][:60],
        "functions_encoded": sorted(functions),
        "solver_s": round(solver_s, 2),
        "trusted_base": sorted(trusted),
        "repo": common.repo_fingerprint(),
        "per_obligation": results,
        "exhaustive": False,
    }
    assumptions = registry.assumptions(prop)
    common.write_evidence(prop, tier, coverage, assumptions, time.time() - t0, nviol)
    print("property %s tier %s: %d obligations, %d discharged, %d violations, %d inconclusive, %.0f s"
          % (prop, tier, len(results), nok, nviol, ninc, time.time() - t0))
    return exit_code


def replay(path):
    data = json.load(open(path))
    prop = data["property"]
    if data.get("engine") == "K":
        overlay = common.scratch_dir("verif-k-")
        K.build_overlay(overlay, registry.generated_kani_files("thorough"))
        ok_dev, out_dev = K.native_replay(overlay, data["harness"], data["playback_test"], release=False)
        ok_rel, out_rel = K.native_replay(overlay, data["harness"], data["playback_test"], release=True)
        print(out_dev[-3000:])
        print("replay dev: %s   release: %s" % ("REPRODUCED" if ok_dev else "clean",
                                                "REPRODUCED" if ok_rel else "clean"))
        if ok_dev or ok_rel:
            print("VIOLATION property=%s replay=%s" % (prop, path))
            return common.EXIT_VIOLATION
        return common.EXIT_OK
    else:
        from mirsym import runner as M
        return M.replay(data, path)


def main():
    ap = argparse.ArgumentParser()
    ap.add_argument("prop", nargs="?")
    ap.add_argument("--tier", default=os.environ.get("VERIF_TIER", "quick"), choices=["quick", "thorough"])
    ap.add_argument("--replay")
    ap.add_argument("--list", action="store_true")
    a = ap.parse_args()
    if a.list:
        for p in registry.properties():
            for o in registry.obligations(p):
                print(p, o.id, o.engine, sorted(o.tiers), o.bounds)
        return 0
    try:
        if a.replay:
            return replay(a.replay)
        if not a.prop:
            ap.error("property id required")
        return run_property(a.prop, a.tier)
    except SystemExit:
        raise
    except Exception:
        traceback.print_exc()
        return common.EXIT_INCONCLUSIVE
    finally:
        common.cleanup()


if __name__ == "__main__":
    sys.exit(main())
