"""Engine K: run Kani proof harnesses against an overlay copy of /repo/simple-dns.

The overlay differs from the working tree only by (a) one appended line in src/dns/mod.rs that
mounts the harness module under cfg(kani), (b) the harness files copied from /verif/kani (plus
files generated at run time from /verif/spec), (c) a stand-alone Cargo.toml.
"""
import os, re, shutil, subprocess, time, json, hashlib
from concurrent.futures import ThreadPoolExecutor
from . import common

KANI_SRC = os.path.join(common.VERIF, "kani")

CARGO_TOML = """[package]
name = "simple-dns"
version = "0.0.0"
edition = "2021"

[dependencies]
bitflags = "2.4"

[workspace]

[lints.rust]
unexpected_cfgs = { level = "allow" }
"""


def build_overlay(dst, generated=None):
    """Copy the current working tree of simple-dns into dst and mount the harness module."""
    src = os.path.join(common.REPO, "simple-dns")
    os.makedirs(dst, exist_ok=True)
    shutil.copytree(os.path.join(src, "src"), os.path.join(dst, "src"))
    shutil.copy(os.path.join(src, "README.md"), os.path.join(dst, "README.md"))
    with open(os.path.join(dst, "Cargo.toml"), "w") as f:
        f.write(CARGO_TOML)
    shutil.copy(os.path.join(common.REPO, "Cargo.lock"), os.path.join(dst, "Cargo.lock"))
    os.makedirs(os.path.join(dst, ".cargo"), exist_ok=True)
    with open(os.path.join(dst, ".cargo", "config.toml"), "w") as f:
        f.write("[net]\noffline = true\n")
    hdir = os.path.join(dst, "src", "dns", "verif_kani")
    shutil.copytree(KANI_SRC, hdir)
    for name, text in (generated or {}).items():
        with open(os.path.join(hdir, name), "w") as f:
            f.write(text)
    with open(os.path.join(dst, "src", "dns", "mod.rs"), "a") as f:
        f.write("\n#[cfg(kani)]\n#[allow(dead_code, unused_imports, unused_variables, clippy::all)]\nmod verif_kani;\n")
    # overlay-only re-exports of two public types that live in private modules (nothing in /repo changes)
    with open(os.path.join(dst, "src", "dns", "rdata", "mod.rs"), "a") as f:
        f.write("\n#[cfg(kani)]\npub use ipseckey::Gateway;\n#[cfg(kani)]\npub use nsec::TypeBitMap;\n")
    return dst


class HarnessResult:
    def __init__(self, name):
        self.name = name
        self.status = "MISSING"       # SUCCESS | FAILED | ERROR | TIMEOUT | MISSING
        self.failed_checks = []       # [(description, file, line)]
        self.covers = (0, 0)          # satisfied, total
        self.time_s = 0.0
        self.checks_total = 0
        self.vcc = None
        self.log = ""
        self.playback = None          # text of concrete-playback unit test, if produced
        self.playbacks = []           # all non-cover playback tests

    def as_dict(self):
        return {"harness": self.name, "status": self.status, "checks": self.checks_total,
                "covers": list(self.covers), "solver_s": self.time_s,
                "failed_checks": self.failed_checks[:5]}


_RE_CHECKING = re.compile(r"^Checking harness (\S+?)\.\.\.\s*$")


def parse_kani_output(text, wanted):
    res = {h: HarnessResult(h) for h in wanted}
    cur = None
    buf = []
    lines = text.split("\n")

    def short(n):
        for h in wanted:
            if n == h or n.endswith("::" + h):
                return h
        return None

    i = 0
    while i < len(lines):
        l = lines[i]
        m = _RE_CHECKING.match(l)
        if m:
            if cur:
                cur.log = "\n".join(buf)
            h = short(m.group(1))
            cur = res.get(h) if h else None
            buf = []
        if cur is not None:
            buf.append(l)
            if l.startswith("VERIFICATION:- SUCCESSFUL"):
                cur.status = "SUCCESS"
            elif l.startswith("VERIFICATION:- FAILED"):
                cur.status = "FAILED"
            elif l.startswith("Verification Time:"):
                try:
                    cur.time_s = float(l.split(":")[1].strip().rstrip("s"))
                except ValueError:
                    pass
            elif l.startswith(" ** ") and "cover properties satisfied" in l:
                m2 = re.match(r" \*\* (\d+) of (\d+) cover", l)
                if m2:
                    cur.covers = (int(m2.group(1)), int(m2.group(2)))
            elif l.startswith(" ** ") and " failed" in l:
                m2 = re.match(r" \*\* (\d+) of (\d+) failed", l)
                if m2:
                    cur.checks_total = int(m2.group(2))
            elif l.startswith("Failed Checks:"):
                desc = l[len("Failed Checks:"):].strip()
                loc = lines[i + 1].strip() if i + 1 < len(lines) else ""
                cur.failed_checks.append((desc, loc))
            elif "Status: ERROR" in l or "CBMC failed" in l or "out of memory" in l.lower():
                if cur.status in ("MISSING",):
                    cur.status = "ERROR"
        i += 1
    if cur:
        cur.log = "\n".join(buf)
    for r in res.values():
        if r.status == "FAILED" and not r.failed_checks and "timed out" in r.log.lower():
            r.status = "TIMEOUT"
    # concrete playback blocks
    for m in re.finditer(r"Concrete playback unit test for `([^`]+)`:\n```\n(.*?)```", text, re.S):
        h = short(m.group(1))
        if h:
            block = m.group(2)
            if "Check for `cover`" in block:
                continue
            res[h].playbacks.append(block)
            res[h].playback = res[h].playbacks[0]
    return res


def run_group(overlay, harnesses, timeout_s, mem_gb=12, extra_args=None, playback=False, exact=True):
    per_harness = timeout_s
    timeout_s = 120 + per_harness * len(harnesses)
    """One cargo-kani process over a list of harness names; returns {harness: HarnessResult}."""
    tdir = os.path.join(overlay, "target-" + hashlib.md5(("|".join(harnesses)).encode()).hexdigest()[:8]
                        + ("p" if playback else ""))
    cmd = ["cargo", "kani", "--target-dir", tdir, "-Z", "stubbing", "--output-format", "regular",
           "-Z", "unstable-options", "--harness-timeout", "%ds" % per_harness]
    if exact:
        cmd.append("--exact")
    for h in harnesses:
        cmd += ["--harness", ("dns::verif_kani::" + h) if exact else h]
    if playback:
        cmd += ["-Z", "concrete-playback", "--concrete-playback=print"]
    if extra_args:
        cmd += extra_args
    shell = "ulimit -v %d; exec timeout -k 5 %d %s" % (
        mem_gb * 1024 * 1024, timeout_s, " ".join("'" + c + "'" for c in cmd))
    t0 = time.time()
    p = subprocess.run(["bash", "-c", shell], cwd=overlay, env=common.env_offline(),
                       capture_output=True, text=True)
    dt = time.time() - t0
    out = p.stdout + "\n" + p.stderr
    res = parse_kani_output(out, harnesses)
    for h, r in res.items():
        if r.status == "MISSING":
            if p.returncode in (124, 137):
                r.status = "TIMEOUT"
            elif "error: could not compile" in out or "error[E" in out:
                r.status = "ERROR"
                r.log = out[-4000:]
            elif not r.log:
                r.log = out[-4000:]
    shutil.rmtree(tdir, ignore_errors=True)
    return res, dt, out


def run_harnesses(overlay, harnesses, jobs=16, timeout_s=600, mem_gb=12, weights=None):
    """Partition harnesses into <= jobs groups (longest-processing-time first on weights) and run
    the groups concurrently.  Returns ({harness: HarnessResult}, raw_logs)."""
    weights = weights or {}
    hs = sorted(harnesses, key=lambda h: -weights.get(h, 1.0))
    ngroups = max(1, min(jobs, len(hs)))
    groups = [[] for _ in range(ngroups)]
    load = [0.0] * ngroups
    for h in hs:
        k = load.index(min(load))
        groups[k].append(h)
        load[k] += weights.get(h, 1.0)
    results, logs = {}, []
    with ThreadPoolExecutor(max_workers=ngroups) as ex:
        futs = [ex.submit(run_group, overlay, g, timeout_s, mem_gb) for g in groups if g]
        for f in futs:
            r, dt, out = f.result()
            results.update(r)
            logs.append(out)
    return results, logs


def playback_for(overlay, harness, timeout_s=600, mem_gb=12):
    """Re-run one failing harness with concrete playback and return the generated unit test text."""
    res, dt, out = run_group(overlay, [harness], timeout_s, mem_gb, playback=True)
    return res[harness].playbacks, out


def native_replay(overlay, harness, playback_text, release=False, timeout_s=300):
    """Insert the concrete-playback test next to the harness and run it natively with
    `cargo kani playback`.  Returns (reproduced: bool, output)."""
    mod, _, fn = harness.rpartition("::")
    path = os.path.join(overlay, "src", "dns", "verif_kani", mod.replace("::", "/") + ".rs")
    orig = open(path).read()
    m = re.search(r"fn (kani_concrete_playback_\w+)", playback_text)
    if not m:
        return False, "no playback test name"
    tname = m.group(1)
    with open(path, "a") as f:
        f.write("\n" + playback_text + "\n")
    try:
        cmd = ["cargo", "kani", "playback", "-Z", "concrete-playback", "--lib"]
        if release:
            cmd.append("--release")
        cmd += ["--", tname]
        p = subprocess.run(cmd, cwd=overlay, env=common.env_offline(), capture_output=True,
                           text=True, timeout=timeout_s)
        out = p.stderr[-3000:] + "\n" + p.stdout
        reproduced = ("test result: FAILED" in out) or ("panicked at" in out)
        ran = "running 1 test" in out
        return (reproduced and ran), out
    finally:
        with open(path, "w") as f:
            f.write(orig)
        shutil.rmtree(os.path.join(overlay, "target"), ignore_errors=True)
