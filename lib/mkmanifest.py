"""Regenerate /verif/MANIFEST.json from the obligation registry (python3 lib/mkmanifest.py)."""
import json, os, sys
sys.path.insert(0, os.path.dirname(os.path.dirname(os.path.abspath(__file__))))
from lib import registry, common

ALL = ["C%02d" % i for i in range(1, 21)]

# per-property manifest texts; a property without an entry here or without registered obligations is
# listed under not_applicable with the reason below.
TEXT = {}
NA_REASON = {}
try:
    from lib import manifest_text
    TEXT = manifest_text.TEXT
    NA_REASON = manifest_text.NA_REASON
except ImportError:
    pass


def main():
    checks = []
    na = []
    for p in ALL:
        obls = registry.obligations(p)
        if not obls or p not in TEXT:
            na.append({"property_id": p, "reason": NA_REASON.get(
                p, "no solver-based check of the real code has been built for this property yet")})
            continue
        t = TEXT[p]
        engines = sorted({o.engine for o in obls})
        checks.append({
            "property_id": p,
            "quick_cmd": "./check %s --tier quick" % p,
            "thorough_cmd": "./check %s --tier thorough" % p,
            "evidence_file": "evidence/%s.json" % p,
            "replay_cmd_template": "./check --replay {path}",
            "engine": "+".join({"K": "kani", "M": "mirsym"}[e] for e in engines),
            "level_claimed": {"category": "model_checking", "text": t["level"], "design_ref": t["design_ref"]},
            "level_note": t["note"],
            "technique": t["technique"],
        })
    m = {
        "version": 1,
        "setup_cmd": "./setup.sh",
        "hooks": {
            "guard": "cfg(kani) (overlay only; no hook exists in /repo's tree)",
            "enable": ("checks copy /repo/simple-dns to a scratch directory, append `#[cfg(kani)] mod verif_kani;` "
                       "to the copy's src/dns/mod.rs and build the copy with cargo-kani; engine M reads "
                       "`cargo +nightly rustc -- -Zunpretty=mir` of a scratch copy; /repo itself carries no hooks"),
            "baseline_off_cmd": "cd /repo && cargo test --workspace --no-fail-fast --offline",
            "source_commits": [],
            "add_only": True,
        },
        "engines": [
            {"name": "kani", "path": "lib/kani_runner.py + kani/*.rs",
             "serves_properties": sorted(p for p in ALL if any(o.engine == "K" for o in registry.obligations(p))),
             "kind_free_text": "Kani 0.68 / CBMC 6.11 bounded model checking of the compiled real code "
                               "(SAT-decided over all values of kani::any() inputs, unwinding assertions on)"},
            {"name": "mirsym", "path": "mirsym/",
             "serves_properties": sorted(p for p in ALL if any(o.engine == "M" for o in registry.obligations(p))),
             "kind_free_text": "own bounded symbolic executor over rustc's MIR dump of the real crates, "
                               "deciding with z3 (paths x SMT queries; inductive loop-head steps)"},
        ],
        "checks": checks,
        "not_applicable": na,
        "notes": "All checks are solver-based checks of the real code (see DESIGN.md). Exit 2 = inconclusive.",
    }
    with open(os.path.join(common.VERIF, "MANIFEST.json"), "w") as f:
        json.dump(m, f, indent=1)
    print("MANIFEST.json: %d checks, %d not_applicable" % (len(checks), len(na)))


if __name__ == "__main__":
    main()
