"""Obligation registry: which solver obligations decide which property, at which tier."""

BOTH = frozenset(["quick", "thorough"])
THOROUGH = frozenset(["thorough"])
QUICK = frozenset(["quick"])


class Obl:
    def __init__(self, id, engine, target, bounds, functions, tiers=BOTH, weight=1.0,
                 timeout_quick=600, timeout_thorough=1800, params=None):
        self.id = id
        self.engine = engine          # "K" (Kani harness name under dns::verif_kani) | "M" (mirsym spec)
        self.target = target
        self.bounds = bounds
        self.functions = functions
        self.tiers = tiers
        self.weight = weight
        self._tq, self._tt = timeout_quick, timeout_thorough
        self.params = params or {}

    def timeout(self, tier):
        return self._tq if tier == "quick" else self._tt


def K(prop, name, bounds, functions, **kw):
    mod = prop.lower()
    return Obl("%s.%s" % (prop, name), "K", "%s::%s" % (mod, name), bounds, functions, **kw)


_REG = {}
_ASSUME = {}


def reg(prop, obls, assumptions):
    _REG.setdefault(prop, []).extend(obls)
    _ASSUME.setdefault(prop, []).extend(assumptions)


def properties():
    return sorted(_REG)


def obligations(prop):
    return _REG.get(prop, [])


def assumptions(prop):
    return _ASSUME.get(prop, [])


def generated_kani_files(tier):
    """Harness source generated at run time from /verif/spec (name -> text)."""
    out = {}
    try:
        from spec import gen_kani
        out.update(gen_kani.generate(tier))
    except ImportError:
        pass
    return out


# ------------------------------------------------------------------------------------- C08
reg("C08", [
    K("C08", "flag_constants", "7 named flag constants vs RFC bit positions", ["PacketFlag"]),
    K("C08", "parse_header", "all 2^96 twelve-byte headers (symbolic), unwind 14",
      ["Header::parse", "PacketFlag::from_bits_truncate", "OPCODE::from", "RCODE::from"]),
    K("C08", "peek_fields", "all 12-byte headers x all 2^7 flag subsets (symbolic), unwind 14",
      ["header_buffer::{id,questions,answers,name_servers,additional_records,opcode,rcode,has_flags}"]),
    K("C08", "flag_algebra", "all pairs (+probe) of 16-bit flag words, named opcode/rcode symbolic",
      ["Header::{set_flags,remove_flags,has_flags}", "Packet::{set_flags,remove_flags,has_flags}"]),
    K("C08", "write_header", "all ids x flag words x 5 named opcodes x 12 named rcodes x 4 counts (symbolic)",
      ["Header::write_to", "Header::get_flags"]),
], [
    "Packet-level accessors (id/opcode/rcode/has_flags) are plain field delegations to Header; the Packet "
    "constructor/parse path over a bare header is decided by engine M (RData drop glue defeats CBMC)",
    "RCODE::Reserved / OPCODE::Reserved carry no wire value; 'every named opcode and response code' excludes them",
])
