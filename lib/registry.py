"""Obligation registry: which solver obligations decide which property, at which tier."""

BOTH = frozenset(["quick", "thorough"])
THOROUGH = frozenset(["thorough"])
QUICK = frozenset(["quick"])


class Obl:
    def __init__(self, id, engine, target, bounds, functions, tiers=BOTH, weight=1.0,
                 timeout_quick=240, timeout_thorough=900, params=None):
        self.id = id
        self.engine = engine          # "K" (Kani harness name under dns::verif_kani) | "M" (mirsym spec)
        self.target = target
        self.bounds = bounds
        self.functions = functions
        self.tiers = tiers
        self.weight = weight
        self._tq, self._tt = timeout_quick, timeout_thorough
        self.params = params or {}

    def timeout(self, tier):
        return self._tq if tier == "quick" else self._tt


def K(prop, name, bounds, functions, **kw):
    mod = prop.lower()
    return Obl("%s.%s" % (prop, name), "K", "%s::%s" % (mod, name), bounds, functions, **kw)


_REG = {}
_ASSUME = {}


def reg(prop, obls, assumptions):
    _REG.setdefault(prop, []).extend(obls)
    _ASSUME.setdefault(prop, []).extend(assumptions)


def properties():
    return sorted(_REG)


def obligations(prop):
    return _REG.get(prop, [])


def assumptions(prop):
    return _ASSUME.get(prop, [])


def generated_kani_files(tier):
    """Harness source generated at run time from /verif/spec (name -> text)."""
    out = {}
    try:
        from spec import gen_kani
        out.update(gen_kani.generate(tier))
    except ImportError:
        pass
    return out


# ------------------------------------------------------------------------------------- C08
reg("C08", [
    K("C08", "flag_constants", "7 named flag constants vs RFC bit positions", ["PacketFlag"]),
    K("C08", "parse_header", "all 2^96 twelve-byte headers (symbolic), unwind 14",
      ["Header::parse", "PacketFlag::from_bits_truncate", "OPCODE::from", "RCODE::from"]),
    K("C08", "peek_fields", "all 12-byte headers x all 2^7 flag subsets (symbolic), unwind 14",
      ["header_buffer::{id,questions,answers,name_servers,additional_records,opcode,rcode,has_flags}"]),
    K("C08", "flag_algebra", "all pairs (+probe) of 16-bit flag words, named opcode/rcode symbolic",
      ["Header::{set_flags,remove_flags,has_flags}", "Packet::{set_flags,remove_flags,has_flags}"]),
    K("C08", "write_header", "all ids x flag words x 5 named opcodes x 12 named rcodes x 4 counts (symbolic)",
      ["Header::write_to", "Header::get_flags"]),
], [
    "Packet-level accessors (id/opcode/rcode/has_flags) are plain field delegations to Header; the Packet "
    "constructor/parse path over a bare header is decided by engine M (RData drop glue defeats CBMC)",
    "RCODE::Reserved / OPCODE::Reserved carry no wire value; 'every named opcode and response code' excludes them",
])

# ------------------------------------------------------------------------------------- C18
from spec import gen_kani as _gk

reg("C18", [
    K("C18", "type_codes", "all 65536 TYPE codes (symbolic) + TYPE_CODE consts vs IANA table", ["TYPE::from(u16)", "u16::from(TYPE)", "RR::TYPE_CODE"]),
    K("C18", "class_codes", "all 65536 CLASS codes (symbolic)", ["CLASS::try_from"]),
    K("C18", "qtype_codes", "all 65536 QTYPE codes (symbolic)", ["QTYPE::try_from", "u16::from(QTYPE)"]),
    K("C18", "qclass_codes", "all 65536 QCLASS codes (symbolic)", ["QCLASS::try_from", "u16::from(QCLASS)"]),
    K("C18", "match_qtype", "all (supported record code, question code in supported|ANY|MAILB) pairs (symbolic)",
      ["ResourceRecord::match_qtype", "RData::type_code"]),
    K("C18", "match_qclass", "all (class, qclass) pairs (symbolic codes)", ["ResourceRecord::match_qclass"]),
    K("C18", "typecode_null_constructed", "all 65536 codes (symbolic) for RData::NULL(code, ..), its into_owned() copy and RData::Empty(TYPE::from(code))",
      ["RData::type_code"]),
    K("C18", "typecode_parsed", "RData::parse with empty RDATA for all 65535 codes != OPT (symbolic): type_code() == the type the code denotes",
      ["RData::parse", "RData::type_code"], weight=20, timeout_quick=700, timeout_thorough=1500),
] + [
    Obl("C18.%s" % h, "K", "gen_c18::%s" % h, "minimal value of 8 RData variants each: type_code() and IANA code",
        ["RData::type_code", "u16::from(TYPE)"]) for h in _gk.c18_variant_harnesses()
], [
    "AXFR/IXFR/MAILA question types are outside the property's quantifier ({TYPE(t), ANY, MAILB}) and are not asserted",
    "record types for match_qtype are represented by RData::Empty(TYPE) (type_code() is a per-variant constant, "
    "checked separately for a minimal value of each of the 42 variants)",
    "Name::parse is replaced by its contract stub in typecode_parsed (contract discharged by engine M, C06)",
])

# ------------------------------------------------------------------------------------- C09 (engine K part)
reg("C09", [
    K("C09", "ttl_encode", "all versions x 12 named rcodes x udp sizes (symbolic)", ["OPT::encode_ttl"]),
    K("C09", "ttl_decode", "all 2^32 TTL words x named header nibbles (symbolic)", ["OPT::extract_rcode_from_ttl"]),
    K("C09", "opt_parse_fixed_part", "all 10-byte fixed parts (symbolic)", ["OPT::parse"]),
], [
    "the 16 EDNS flag bits (DO/Z) are written as zero and not exposed by the library; the property does not require them",
    "a Reserved header nibble (11..15) carries no value in the library's RCODE enum; recombination is asserted for named nibbles",
])

# ------------------------------------------------------------------------------------- C01 (engine K part)
reg("C01", [
    K("C01", "peek_any_length", "8 peek functions x every buffer length 0..=16, all bytes symbolic",
      ["header_buffer::{id,questions,answers,name_servers,additional_records,has_flags,rcode,opcode}"]),
    K("C01", "header_any_length", "Header::parse on every slice length 0..=16, all bytes symbolic", ["Header::parse"]),
    K("C01", "character_string_parse", "every buffer length 0..=16, every cursor 0..=len+1, all bytes symbolic",
      ["CharacterString::parse"]),
] + [
    Obl("C01.%s" % h, "K", "gen_c01::%s" % h,
        "RDATA cut n<=24 (quick) / 28 (thorough), cursor<n, all bytes symbolic; Name::parse = contract stub",
        ["<%s as WireFormat>::parse" % h[len("rdata_"):].upper()], weight=5)
    for h in _gk.c01_rdata_harnesses()
], [
    "typed RDATA parsers are entered under the only pre-condition their caller RData::parse establishes: "
    "the message is cut at position+RDLENGTH and RDLENGTH >= 1 (cursor < len)",
    "Name::parse is replaced by its contract stub (old<new<=len on Ok); the contract is discharged by engine M (C06.contract)",
    "wall-clock time and allocator internals are not modelled; termination is by loop variants (engine M) and unwinding assertions (engine K)",
])

# ------------------------------------------------------------------------------------- C17 (engine K part)
reg("C17", [
    K("C17", "label_grammar_short", "Label::new over all byte strings of length 0..=6 (256 values per byte)", ["Label::new", "Label::is_valid_label"]),
    K("C17", "label_grammar_long", "Label::new over all byte strings of length 60..=66", ["Label::new", "Label::is_valid_label"], weight=10),
], [])

# ------------------------------------------------------------------------------------- C19 (engine K part)
reg("C19", [
    K("C19", "cs_new_len", "CharacterString::new for every length 0..=300", ["CharacterString::new"]),
    K("C19", "cs_try_from_str", "CharacterString::try_from(&str) for every length 0..=300", ["CharacterString::try_from"]),
    K("C19", "cs_write_len_octet", "write_to length octet/content for lengths 0..=4, symbolic bytes", ["CharacterString::write_to"]),
], [])


def M(prop, name, spec, bounds, functions, params=None, **kw):
    return Obl("%s.%s" % (prop, name), "M", spec, bounds, functions, params=params or {}, **kw)


# ------------------------------------------------------------------------------------- C06
reg("C06", [
    M("C06", "equiv", "name_parse",
      "every buffer of length 0..6 (quick) / 0..8 (thorough), all 256^L byte values, every start offset; loop bound 8/12",
      ["<Name as WireFormat>::parse", "Label::new_unchecked"], params={'mode': 'equiv'}),
], [
    "reference = RFC 1035 4.1.4 decoder written from the RFC in mirsym/specs/name_parse.py (label octet <= 63, "
    "pointer = 14-bit offset strictly below the pointer's own position, 01/10 label types rejected, expanded name <= 255 octets)",
    "paths that reach the loop bound are reported as bound hits and lie outside the claim",
])

reg("C06", [
    M("C06", "contract", "name_step",
      "inductive: any buffer length <= 65535, any iteration count; loop-head state symbolic under Inv "
      "(pos<=len, pp<=len, name_size<=318, pos0<=pos, !following => pos==pp)",
      ["<Name as WireFormat>::parse (loop body from the loop head, and entry->loop head)"]),
], [
    "induction over loop iterations is the meta-argument: base + step + exit obligations are each decided by z3",
])

reg("C06", [
    M("C06", "rdata_names", "rdata_ptr",
      "for each of the 23 record types whose RDATA carries a domain name: header | question (2 labels, symbolic bytes) | record whose owner and "
      "every RDATA name are 2-byte pointers to the question name (whole name at offset 12, and its last label at offset 15), fixed fields symbolic: "
      "accepted, and every name in the parsed RDATA equals the designated (suffix of the) question name",
      ["Packet::parse", "ResourceRecord::parse", "RData::parse", "typed RDATA parsers of NS..HTTPS", "<Name as WireFormat>::parse"]),
], [
    "pointers inside RDATA are offsets from the first byte of the message, not of the RDATA (RFC 1035 4.1.4); receivers follow pointers also in "
    "types whose senders must not compress",
])

reg("C01", [
    M("C01", "name.step", "name_step",
      "inductive: any buffer length <= 65535, any iteration count: one iteration from any Inv-state is panic-free, "
      "re-establishes Inv and decreases the variant (318-name_size, pointer_position); <=1 label pushed per iteration",
      ["<Name as WireFormat>::parse"]),
    M("C01", "name.run", "name_parse",
      "bounded run from the entry: every buffer length 0..6/0..8, all bytes and start offsets symbolic, loop bound 8/12",
      ["<Name as WireFormat>::parse"], params={'mode': 'nopanic'}),
], [
    "Name::parse termination: the variant bounds iterations by 319 * (len+1); linear-time claim = this variant, not a measurement",
])

reg("C01", [
    M("C01", "rdata.loops", "rdata_bytes",
      "TXT, OPT, NSEC, SVCB, HTTPS parsers (real Name::parse inside): every buffer length 1..6 (quick) / 1..8 (thorough) (OPT: 11..16 / 11..18 incl. its 10-byte fixed part), "
      "all bytes and cursor symbolic, loop bound 2L+4",
      ["<TXT|OPT|NSEC|SVCB|HTTPS as WireFormat>::parse", "CharacterString::parse", "Name::parse", "BTreeMap::insert (model)"]),
], [])

_RR_FUNCS = ["<ResourceRecord as WireFormat>::{write_to,parse,len}", "ResourceRecord::write_common", "<RData as WireFormat>::{write_to,parse,len}",
             "parse_rdata", "<T as WireFormat>::{write_to,parse,len} for each of the 41 typed variants + NULL",
             "<Name as WireFormat>::{parse,write_to,len}", "<CharacterString as WireFormat>::{parse,write_to,len}"]
_RR_BOUNDS = ("per record type: all integer/byte field values symbolic (full width), 5 classes x cache-flush bit x TTL symbolic; "
              "shapes: names {root,[1],[2,1],[3,2,1],[63]}, strings {0,2,5,255}, opaque tails {0,3,1,9}, "
              "0-3 list entries for TXT/OPT/NSEC/SVCB, all 4 IPSECKEY gateway kinds (same in both tiers)")
_RR_ASSUME = [
    "validity predicates assumed (and nothing else): LOC version = 0 (write_to refuses others); NSAP aa < 2^24 and id < 2^48 "
    "(the wire format carries 24/48 bits); NSEC windows and SVCB keys strictly increasing (RFC order); TXT has >= 1 "
    "character-string (RFC 1035 3.3.14; the library writes an empty TXT as one empty string); OPT TTL carries its VERSION",
    "the reference encoding is produced by spec/rdata_schema.py + mirsym/specs/valuegen.py, written from the RFCs",
]
reg("C02", [M("C02", "rdata", "rr_roundtrip", _RR_BOUNDS, _RR_FUNCS)], _RR_ASSUME + [
    "this obligation decides the per-record part of C02 (owner, type, class, TTL, cache-flush, every RDATA field)"])
reg("C04", [M("C04", "len", "rr_roundtrip", _RR_BOUNDS, _RR_FUNCS)], _RR_ASSUME + [
    "this obligation decides RDLENGTH == RDATA bytes written and len() == bytes written for every record type"])
reg("C10", [M("C10", "encdec", "rr_roundtrip", _RR_BOUNDS, _RR_FUNCS)], _RR_ASSUME + [
    "NSAP is checked in the library's documented interpretation (20-byte ATM format); ISDN requires both strings (struct has no optional sa)"])

_PKT_FUNCS = ["Packet::{build_bytes_vec,build_bytes_vec_compressed,write_to,write_compressed_to,write_header,parse,parse_section}",
              "Header::{write_to,get_flags,opt_rr,parse,extract_info_from_opt_rr}", "OPT::{encode_ttl,extract_rcode_from_ttl,parse,write_to}",
              "<Question|ResourceRecord|RData|typed RDATA as WireFormat>::{write_to,write_compressed_to,parse,len}",
              "Name::{plain_append,compress_append,parse}", "HashMap entry API (model)", "io::Cursor<Vec<u8>> Write+Seek (model)"]
_PKT_BOUNDS = ("15 packet scenarios (both tiers): 0-2 questions, 0-3 records per section over NS/PTR/CNAME/MX/SRV/SOA/MINFO/A/TXT/"
               "RP/AFSDB/RT/KX/NAPTR/RRSIG/NSEC/SVCB/IPSECKEY/HINFO/CAA/NULL/AAAA, a 16400-byte record (names beyond offset 16383), 255-octet names, names built from shared symbolic labels "
               "(equal names, subdomains, unrelated), OPT absent/empty/with options; id, flag bits, TTLs, cache-flush/unicast bits, "
               "all integer fields and label bytes symbolic; header scenario: 5 named opcodes x 12 named rcodes x symbolic flags")
_PKT_ASSUME = [
    "section sizes and name shapes are concrete per scenario (the section loop itself is a plain for-loop over the Vec)",
    "an rcode > 15 without an OPT record is excluded (documented API requirement of Packet::rcode_mut)",
    "the envelope walker (mirsym/specs/packet_rt.py walk_plain) is written from RFC 1035 4.1, independent of the code",
]
reg("C02", [M("C02", "packet", "packet_rt", _PKT_BOUNDS, _PKT_FUNCS)], _PKT_ASSUME)
reg("C03", [M("C03", "packet", "packet_rt", _PKT_BOUNDS, _PKT_FUNCS)], _PKT_ASSUME + [
    "messages beyond offset 16383 are NOT covered by this obligation (see C03.far)"])
reg("C04", [M("C04", "frame", "packet_rt", _PKT_BOUNDS, _PKT_FUNCS)], _PKT_ASSUME)
reg("C09", [M("C09", "wire", "packet_rt", _PKT_BOUNDS, _PKT_FUNCS)], _PKT_ASSUME + [
    "C09.wire: the walker finds the OPT pseudo-record (root owner = 1 name byte, TYPE 41, RDLENGTH) counted once in ARCOUNT; "
    "field placement inside the OPT record is decided by C02.rdata/C10 (OPT type) and the TTL layout by the Kani harnesses"])

reg("C01", [
    M("C01", "packet", "packet_bytes",
      "Packet::parse on fully symbolic messages of every length 0,4,8,12..19 (quick) / ..21 (thorough): all header counts and all "
      "bytes symbolic; flags word fixed for L>12; Name::parse = contract stub for L>12; loop bound 40; also decides "
      "C01.alloc: sum of Vec::with_capacity element requests <= message length",
      ["Packet::parse", "Packet::parse_section", "Question::parse", "ResourceRecord::parse", "RData::parse", "parse_rdata",
       "typed RDATA parsers", "Header::parse", "header_buffer::*", "Header::extract_info_from_opt_rr"],
      params={'K_quick': 7, 'K_thorough': 9}),
], [
    "C01.alloc counts element requests of Vec::with_capacity (the only explicit pre-allocations in the parse path); "
    "incremental Vec growth is bounded by the number of pushes, i.e. by the iteration variants",
])

reg("C17", [
    M("C17", "text", "name_text",
      "Name::new + Display + re-create over ALL byte strings of length 0..5 (quick) / 0..7 (thorough) (UTF-8 validity assumed), "
      "names of 253..256 encoded octets written with single dots and with repeated / trailing dots (empty labels); is_subdomain_of/without over all pairs of names with 0..3 (4) one-byte symbolic labels; "
      "is_link_local over names whose last label has 0,1,4,5,6 symbolic bytes",
      ["Name::new", "LabelsIter::next", "Label::new", "Label::is_valid_label", "<Name as WireFormat>::len", "<Name as Display>::fmt",
       "<Label as Display>::fmt", "Name::is_subdomain_of", "Name::without", "Name::is_link_local"]),
], [
    "&str arguments are assumed to be valid UTF-8 (a Rust type invariant)",
    "for the suffix algebra labels are single symbolic bytes: the functions compare labels only through Label equality",
])

_MDNS_FUNCS = ["simple_mdns::build_reply", "ResourceRecordManager::{new,add_authoritative_resource,add_cached_resource,remove_resource_record,clear,get_domain_resources}",
               "resource_record_manager::get_key", "DomainResourceFilter::{authoritative,cached,all,match_filter}", "ExpirationInfo::new",
               "ResourceRecord::{match_qtype,match_qclass,eq,hash,clone}", "Name::get_labels", "Label::{len,as_bytes}",
               "radix_trie::Trie (model)", "HashMap/HashSet (model)", "Instant/Duration (monotone symbolic clock model)"]
reg("C13", [
    M("C13", "key", "mdns_store", "all 49 ordered pairs of names from a pool of 7 names (0..3 labels) over 5 shared symbolic labels of 1-2 bytes: "
      "get_key prefix/equality vs label-wise subdomain/equality, for all label byte values", _MDNS_FUNCS, params={'part': 'key'}),
    M("C13", "reply", "mdns_store", "16 (quick) / 20 (thorough) store+query scenarios: 0-3 registered records (authoritative/cached; A, SRV, TXT; "
      "class IN/CH symbolic) over the name pool incl. a.b vs ab and x vs xy collisions, 0-2 questions (TYPE/ANY x IN/ANY, unicast bit symbolic); "
      "all label bytes, addresses, ports, TTLs, ids symbolic", _MDNS_FUNCS, params={'part': 'reply'}),
], [
    "HashMap/HashSet iteration order is fixed to insertion order in these obligations (the statement is about sets of records)",
    "radix_trie::Trie::subtrie is modelled from the crate source: Some only if a node exists at the key (stored key or byte-aligned branch)",
])
reg("C20", [
    M("C20", "expiry", "mdns_store", "11 (quick) / 16 (thorough) histories of <=3 operations {add-authoritative, add-cached, re-add with other TTL/flush, "
      "remove (the record itself or one with the same owner and an independent address), clear} on one record key, TTLs and cache-flush bits symbolic (all 2^32 TTLs), monotone symbolic clock; queried with the 4 filters",
      _MDNS_FUNCS, params={'part': 'expiry'}),
], [
    "the clock is a solver variable: Instant::now() returns an arbitrary non-decreasing instant < 2^61 ns; real sleeping is not modelled",
    "one record key per history (the store keeps records in independent buckets; cross-record interference is covered by C13.reply scenarios)",
])

reg("C05", [
    M("C05", "framing", "rr_framing",
      "header | record1 | A-record: record1 of each of the 42 parser entries (+unknown type), RDLENGTH 0..6 (quick) / 0..9 (thorough), "
      "all RDATA bytes / class / TTLs / id symbolic; messages cut 1,2,5 bytes short; OPT + A in the additional section; an OPT record at each of "
      "the 4 positions among three A records (wire order kept); names inside RDATA = Name::parse contract stub",
      ["Packet::parse", "Packet::parse_section", "ResourceRecord::parse", "RData::parse", "parse_rdata", "typed RDATA parsers", "Name::parse (owner names)"]),
], [
    "record 2 is an A record with root owner; its position is computed by an RFC 1035 envelope walker (12 + 11 + RDLENGTH)",
    "names inside RDATA are abstracted by the Name::parse contract (discharged by C06.contract); an OPT record is lifted out of the additional section (C09): "
    "the remaining records must keep their wire order",
])

reg("C10", [
    M("C10", "reject", "rr_reject",
      "11 rule-breaking encodings (LOC version != 0; SVCB/HTTPS keys and NSEC windows not strictly increasing; inner length of "
      "TXT/HINFO/NAPTR/CAA/OPT/SVCB/NSEC running 1..3 bytes past RDLENGTH), every other byte symbolic",
      ["ResourceRecord::parse", "RData::parse", "LOC|SVCB|HTTPS|NSEC|TXT|HINFO|NAPTR|CAA|OPT ::parse", "CharacterString::parse"]),
], [])

reg("C09", [
    M("C09", "opt_record", "rr_roundtrip",
      "OPT pseudo-record alone: udp size, version, TTL (VERSION in bits 23..16), 0-2 (3) options with symbolic codes and data of 0..5 bytes "
      "(incl. a trailing empty option): written bytes == RFC 6891 layout, parse(reference bytes) == original",
      ["<ResourceRecord as WireFormat>::{write_to,parse,len}", "OPT::{parse,write_to,len}"], params={'only': ['OPT']}),
], [])

_W_FUNCS = ["Packet::{write_to,write_compressed_to,build_bytes_vec,build_bytes_vec_compressed,write_header}", "MessageWriter::{write,seek}",
            "ResourceRecord::{write_to,write_compressed_to,write_common}", "Name::{plain_append,compress_append}",
            "typed RDATA write_to / write_compressed_to", "io::Cursor<Vec<u8>>, Cursor<&mut [u8]>, &mut [u8] (Write/Seek models)"]
reg("C04", [
    M("C04", "writers", "writers",
      "5 (quick) / 8 (thorough) packet scenarios x {plain, compressed} x growable cursor at origin 0/2/5 over storage pre-filled with "
      "k, k+n+7, n+3 symbolic bytes x fixed Cursor<&mut [u8]> and &mut [u8] of capacity n-3, n-1, n, n+2; all packet values symbolic",
      _W_FUNCS, params={'part': 'writers'}),
], ["writer kinds are models of the std implementations (Vec, Cursor<Vec>, Cursor<&mut [u8]>, &mut [u8]); other Write impls are outside"])
reg("C07", [
    M("C07", "pointers", "writers",
      "5 (quick) / 8 (thorough) packet scenarios + all 7 must-not-compress types (SVCB / HTTPS with and without parameters, priority symbolic): an independent schema-aware walker over the compressed "
      "output of build_bytes_vec_compressed; names from shared symbolic labels (solver chooses which names are equal)",
      _W_FUNCS, params={'part': 'pointers'}),
    M("C07", "origin", "writers",
      "same scenarios written with write_compressed_to at writer offsets 2 and 5: bytes (hence every pointer) identical to the offset-0 output",
      _W_FUNCS, params={'part': 'writers'}),
    M("C07", "far", "packet_rt", "scenarios 'far' (names first written beyond offset 16383 after a 16400-byte record, then repeated) and "
      "'straddle' (a name whose labels begin on both sides of offset 16383, followed by a name sharing only the late suffix)",
      _PKT_FUNCS, params={'only': ['far', 'straddle']}),
], ["a pointer must land on the start of a label (or pointer) of a name written earlier at a compressible position; "
    "RDATA names of the must-not-compress types are required to be written in full and are not considered pointer targets"])

reg("C16", [
    M("C16", "owned_hash", "owned_hash",
      "per record type (41 variants + NULL), up to 4 (8) shapes each: record built from parts AND record parsed from its reference bytes: "
      "clone()/into_owned() field-wise equal, real PartialEq true, identical bytes; two same-shape records with independent symbolic "
      "contents: real eq true => identical Hasher byte streams",
      ["<ResourceRecord as Clone>::clone", "ResourceRecord::into_owned", "RData::into_owned", "<T>::into_owned for every RDATA type",
       "Name::into_owned", "Label::into_owned", "CharacterString::into_owned", "<ResourceRecord as PartialEq>::eq", "<ResourceRecord as Hash>::hash",
       "derived PartialEq/Hash of RData and every RDATA type", "<Name as Hash>::hash", "<Name as PartialEq>::eq"]),
], [
    "the Hasher is a recording model: 'hash equally' is decided as equality of the byte streams fed to Hasher::write*",
    "Packet and Question have no PartialEq/Hash; their owned copies are covered through C02.packet (parse borrows, build owns)",
    "InstanceInformation (simple-mdns) equality/hash is decided by the separate obligation C16.instance_hash",
])

reg("C12", [
    M("C12", "observers", "observers",
      "per record type (41 variants + NULL), up to 4 (8) shapes: record parsed from its reference bytes with every label / string / blob "
      "byte symbolic (all UTF-8 validity classes), then Debug, Display, clone, into_owned, ==, Hash, match_qtype/qclass, TXT attributes / "
      "long_attributes / String::try_from; plus Debug of a whole parsed packet (scenario mx_srv)",
      ["<ResourceRecord as Debug>::fmt and the derive(Debug) chain of RData and every RDATA type", "<Name as Display|Debug>::fmt", "<Label as Display|Debug>::fmt",
       "<CharacterString as Display|Debug>::fmt", "TXT::{attributes,long_attributes}", "<String as TryFrom<TXT|CharacterString>>::try_from",
       "ResourceRecord::{clone,into_owned,eq,hash,match_qtype,match_qclass}", "<Packet as Debug>::fmt"]),
], [
    "core::fmt (Formatter, Arguments templates, debug builders) is a model; the crate's own fmt impls are executed from MIR",
    "from_utf8 / from_utf8_lossy validity is decided exactly by a z3 formula of the UTF-8 well-formedness table",
])

reg("C19", [
    M("C19", "text", "txt_text",
      "chunk: strings of 0,1,3,253,254,255,256 (+508,509,510) bytes, every byte symbolic (valid UTF-8); attr: maps of 1-2 entries with "
      "absent / empty / non-empty values, keys without '=', all bytes symbolic, both HashMap iteration orders; duplicate keys; "
      "long: texts of 0..3 symbolic chars over the full Unicode scalar range",
      ["<TXT as TryFrom<&str>>::try_from", "<String as TryFrom<TXT>>::try_from", "<TXT as TryFrom<HashMap<String, Option<String>>>>::try_from",
       "TXT::attributes", "TXT::long_attributes", "TXT::add_char_string", "CharacterString::{new,internal_new,try_from}"]),
], [
    "strings are valid UTF-8 (type invariant of &str / String), decided by a z3 formula of the well-formedness table",
    "HashMap<String, Option<String>> is a model; both iteration orders of a 2-entry map are explored",
])

reg("C11", [
    M("C11", "reserialize", "reserialize",
      "parser-accepted messages: all 12-byte headers (every flag word / opcode / rcode nibble); header + 1 question in messages of 17..19 (21) bytes "
      "(17: all QTYPE/QCLASS codes and ids with the root name; longer: symbolic name bytes incl. pointers, unicast bit); header + one record of each of the 42 parser entries (+unknown) with RDLENGTH 0..4 (6) and symbolic RDATA "
      "(foreign compression pointers inside RDATA names included; envelope values concrete for name-bearing types); OPT first/last "
      "among additional records with 0/4/5 option bytes, OPT first / in the middle of three additional records (order kept): build_bytes_vec(_compressed) succeed and parse back to an equal packet",
      ["Packet::parse", "Packet::build_bytes_vec", "Packet::build_bytes_vec_compressed", "Header::{parse,write_to,get_flags,opt_rr,extract_info_from_opt_rr}",
       "ResourceRecord / RData / typed RDATA parse + write_to + write_compressed_to + len", "Name::{parse,plain_append,compress_append}"]),
    M("C11", "large", "packet_rt", "received messages larger than 16 KiB, taken as the plain serialisation of the 'far' and 'straddle' packets (names first written "
      "beyond / across offset 16383, then repeated): re-serialising the parsed packet with compression parses back to the same packet",
      _PKT_FUNCS, params={'only': ['far', 'straddle']}),
], [
    "loop bound 10 per loop head; paths that reach it (legal pointer cycles up to the 255-octet budget) are outside the claim",
    "known finding (not repaired): unnamed RCODE values collapse to RCODE::Reserved and are written back as 1, see known_findings.txt",
])

_PIPE_FUNCS = ["sync_discovery::service_discovery::add_response_to_resources", "simple_mdns::build_reply", "ResourceRecordManager::*",
               "Packet::{build_bytes_vec_compressed,parse}", "Name::{is_subdomain_of,eq}", "ResourceRecord::into_owned",
               "instance_information::{escaped_instance_name,unescaped_instance_name}"]
reg("C14", [
    Obl("C14.peek_any_length", "K", "c01::peek_any_length", "8 peek functions x every datagram length 0..=16, all bytes symbolic (the call shapes "
        "has_flags(&buf[..count]) / id / answers of the responder, listener and resolver loops)", ["header_buffer::*"]),
    M("C14", "name_parse", "name_parse", "Name::parse terminates and does not panic: every buffer 0..6 (8) bytes, progress check on loop-bound hits",
      ["<Name as WireFormat>::parse"], params={'mode': 'nopanic'}),
    M("C14", "name_step", "name_step", "inductive Name::parse step: any length, any iteration count", ["<Name as WireFormat>::parse"]),
    M("C14", "packet", "packet_bytes", "Packet::parse on fully symbolic datagrams of length 0,4,8,12..17 (quick)", ["Packet::parse"],
      params={'K_quick': 5, 'K_thorough': 9}),
    M("C14", "ingest", "mdns_pipeline", "5 response scenarios (A records; one with a TXT record holding an empty and a short string): answers/additional records over a pool of names with arbitrary label bytes, "
      "service / own-instance names from the same pool: no panic, and exactly the admissible records are stored as cached", _PIPE_FUNCS,
      params={'part': 'ingest'}),
    M("C14", "reply_wire", "mdns_pipeline", "14 query scenarios against stores of 1-3 records (hostile label bytes; TXT strings of 255 / 256 bytes through the validating constructor): no panic; every Some(reply) "
      "serialises (compressed) to bytes Packet::parse accepts and that parse back to the reply", _PIPE_FUNCS, params={'part': 'reply_wire'}),
    M("C14", "key", "mdns_store", "get_key on names with arbitrary (non-UTF-8) label bytes: no panic (49 name pairs)", _MDNS_FUNCS, params={'part': 'key'}),
], [
    "socket set-up, recv_from/send_to errors, thread scheduling, lock poisoning as a scheduling phenomenon and the tokio variants' executor are "
    "outside this technique: the obligations cover the sequential handling functions that the receive loops call with the lock held",
    "the on_discovery channel is None in the ingest obligation (the Some branch only adds InstanceInformation::from_records, covered by C15)",
])
reg("C12", [
    M("C12", "instance_name", "mdns_pipeline", "escaped_instance_name / unescaped_instance_name applied to ARBITRARY strings of 0..3 (4) chars over the "
      "full Unicode scalar range (what a received instance label can decode to): no panic", _PIPE_FUNCS, params={'part': 'escape'}),
], [])
reg("C15", [
    M("C15", "escape", "mdns_pipeline", "unescape(s) does not panic and unescape(escape(s)) == s for all strings of 0..3 (4) chars over the full Unicode scalar range", _PIPE_FUNCS,
      params={'part': 'escape'}),
    M("C15", "filter", "mdns_pipeline", "ingest filter: own instance, the service name itself and non-subdomains are never stored; admissible "
      "records always are (5 scenarios over the symbolic name pool)", _PIPE_FUNCS, params={'part': 'ingest'}),
    M("C15", "attributes", "txt_text", "attribute maps (1-2 entries; absent / empty / non-empty values) survive TXT::try_from(map) -> attributes()",
      ["<TXT as TryFrom<HashMap<String, Option<String>>>>::try_from", "TXT::attributes"], params={'part_only': 'attr'}),
    M("C15", "instance", "instance_rt", "end to end: InstanceInformation -> into_records -> compressed packet -> Packet::parse -> from_records on 5 (8) "
      "member shapes (0-2 IPv4, 0-2 IPv6, 0-2 ports, 0-2 attributes with absent / empty / non-empty values); instance and service labels, "
      "addresses, ports, TTL, keys and values symbolic; every iteration order of the three hash containers",
      ["InstanceInformation::into_records", "InstanceInformation::from_records", "conversion_utils::{ip_addr_to_resource_record,port_to_srv_record,hashmap_to_txt}",
       "TXT::try_from(HashMap)", "TXT::attributes", "Packet::build_bytes_vec_compressed", "Packet::parse", "Name::without"]),
    M("C15", "wire", "packet_rt", "records of the kinds an instance announces (A, SRV, TXT, PTR) cross the wire in a compressed packet unchanged "
      "(scenarios mx_srv, an_ns_ptr, opt_and_ar)", _PKT_FUNCS, params={'only': ['mx_srv', 'an_ns_ptr', 'opt_and_ar']}),
], [
    "C15.instance runs the chain InstanceInformation -> into_records -> compressed packet -> parse -> from_records on the real MIR; the store "
    "in between (add_response_to_resources -> ResourceRecordManager -> get_domain_resources(cached)) is decided separately by C15.filter / C13 / C20",
    "attribute keys are RFC 6763 keys (at least one character, no '='): a key-less string and the empty map have the same wire form",
    "instance and service labels are printable ASCII without '.' and '\\' (single-label instance names, as the property's quantifier says)",
    "socket transport between the two sides is replaced by bytes out = bytes in",
])

reg("C02", [
    M("C02", "txt_from_text", "txt_text", "records whose TXT value is built from text (TXT::try_from(&str), strings of 0,1,3,253..256 (+508..510) symbolic bytes): "
      "len() == bytes written == text + one length octet per piece, and the written RDATA parses back to the same number of strings",
      ["<TXT as TryFrom<&str>>::try_from", "<TXT as WireFormat>::{write_to,len,parse}"], params={'part_only': 'chunk'}),
], [])
reg("C02", [
    M("C02", "question", "question_rt", "questions: 47 QTYPE values (41 types, NULL, IXFR, AXFR, MAILB, MAILA, ANY) x 6 QCLASS values x unicast bit x "
      "3 name shapes with symbolic label bytes: write_to == RFC 1035 4.1.2 layout, parse(reference bytes) == question",
      ["<Question as WireFormat>::{write_to,parse,len}", "Question::write_common", "QTYPE/QCLASS conversions"]),
], [])
reg("C18", [
    M("C18", "question_codes", "question_rt", "the same 47 x 6 question type/class values: the code on the wire is the IANA number, and it parses back to the same value",
      ["<Question as WireFormat>::{write_to,parse}", "u16::from(QTYPE)", "QTYPE::try_from", "QCLASS::try_from"]),
], [])

reg("C16", [
    M("C16", "instance_hash", "instance_hash",
      "InstanceInformation pairs with the same 0-2 IPv4 addresses and 0-2 ports inserted in opposite orders, every HashSet iteration order "
      "explored, all address/port/name bytes symbolic: real eq true and identical hasher streams",
      ["<InstanceInformation as Hash>::hash", "<InstanceInformation as PartialEq>::eq", "HashSet iteration (model: every permutation)",
       "slice::sort (model)", "IpAddr Ord/Hash (model)"]),
], ["HashSet iteration order is modelled as an arbitrary permutation per iteration (std documents it as unspecified)"])

reg("C05", [
    M("C05", "counts", "packet_bytes",
      "Packet::parse on fully symbolic messages of length 12..19 (quick) / ..21: whenever it succeeds, the number of questions / answers / "
      "authority / additional entries returned (OPT counted once) equals the four header counts - counts running past the end are rejected",
      ["Packet::parse", "Packet::parse_section", "header_buffer::{questions,answers,name_servers,additional_records}"],
      params={'K_quick': 7, 'K_thorough': 9}),
], [])

reg("C01", [
    M("C01", "alloc.records", "rr_framing",
      "three minimal TXT / NSEC / SVCB / HTTPS records in one message: elements requested through Vec::with_capacity while parsing sum to "
      "at most the message length (no pre-allocation proportional to the record's offset or to header counts)",
      ["Packet::parse", "TXT::parse", "NSEC::parse", "SVCB::parse"], params={'alloc_only': True}),
], [])

# translator validation (decides no property; guards the engine): hosted by the properties whose obligations are engine M only
for _p in ("C02", "C10", "C11"):
    reg(_p, [M(_p, "translator", "translator_val",
               "90 concrete cases: the repository's 30 sample records + 2 truncations each, interpreted by mirsym and executed natively "
               "(accept/reject/panic, cursor, type code, len(), TTL, re-serialised bytes must agree)",
               ["<ResourceRecord as WireFormat>::{parse,write_to,len}", "RData::type_code", "u16::from(TYPE)"])],
        ["translator validation decides no property: a mismatch makes the check INCONCLUSIVE (engine defect), never a violation"])
