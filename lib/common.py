"""Shared plumbing for the /verif checks: scratch dirs, evidence, known findings, exit codes."""
import json, os, shutil, subprocess, sys, tempfile, time, atexit, signal

VERIF = os.path.dirname(os.path.dirname(os.path.abspath(__file__)))
REPO = os.environ.get("VERIF_REPO", "/repo")
# seeded-change runs (tools/run_seed*.py) redirect their evidence so that the committed files always describe /repo itself
EVIDENCE_DIR = os.environ.get("VERIF_EVIDENCE_DIR") or os.path.join(VERIF, "evidence")
KNOWN_FINDINGS = os.path.join(VERIF, "known_findings.txt")
CEX_DIR = os.path.join(VERIF, "cex")           # replayable counter-examples (git-ignored)

EXIT_OK, EXIT_VIOLATION, EXIT_INCONCLUSIVE = 0, 1, 2

_scratch = []


def scratch_dir(prefix="verif-"):
    base = os.environ.get("VERIF_SCRATCH", tempfile.gettempdir())
    d = tempfile.mkdtemp(prefix=prefix, dir=base)
    _scratch.append(d)
    return d


def cleanup():
    for d in _scratch:
        shutil.rmtree(d, ignore_errors=True)
    _scratch.clear()


atexit.register(cleanup)


def _sig(signum, frame):
    cleanup()
    sys.exit(EXIT_INCONCLUSIVE)


signal.signal(signal.SIGTERM, _sig)
signal.signal(signal.SIGINT, _sig)


def env_offline(extra=None):
    e = dict(os.environ)
    e["CARGO_NET_OFFLINE"] = "true"
    e.pop("RUSTFLAGS", None)
    if extra:
        e.update(extra)
    return e


def seed():
    try:
        return int(os.environ.get("VERIF_SEED", "0"))
    except ValueError:
        return 0


def repo_fingerprint():
    """git HEAD + dirty flag of /repo, for the evidence file."""
    try:
        head = subprocess.run(["git", "-C", REPO, "rev-parse", "--short", "HEAD"],
                              capture_output=True, text=True).stdout.strip()
        dirty = subprocess.run(["git", "-C", REPO, "status", "--porcelain", "--untracked-files=no"],
                               capture_output=True, text=True).stdout.strip()
        return head + ("+dirty" if dirty else "")
    except Exception:
        return "unknown"


# ------------------------------------------------------------------ known findings
class Known:
    """known_findings.txt lines:
         known: property=<id> key=<obligation/role key> :: <what fails>
         fixed: property=<id> <commit> <what failed>
       Only 'known:' lines suppress (turn a confirmed violation into KNOWN-FINDING)."""

    def __init__(self, path=KNOWN_FINDINGS):
        self.entries = []
        if os.path.exists(path):
            for line in open(path):
                line = line.strip()
                if not line.startswith("known:"):
                    continue
                body = line[len("known:"):].strip()
                head, _, what = body.partition("::")
                kv = dict(tok.split("=", 1) for tok in head.split() if "=" in tok)
                self.entries.append((kv.get("property"), kv.get("key"), what.strip()))

    def match(self, prop, key):
        for p, k, what in self.entries:
            if p == prop and k == key:
                return what
        return None


# ------------------------------------------------------------------ evidence
def write_evidence(prop, tier, coverage, assumptions, wall_s, violations, extra=None):
    os.makedirs(EVIDENCE_DIR, exist_ok=True)
    ev = {
        "property_id": prop,
        "tier": tier,
        "seed": seed(),
        "level": "model_checking",
        "coverage": coverage,
        "assumptions": assumptions,
        "wall_s": round(wall_s, 2),
        "violations": violations,
    }
    if extra:
        ev.update(extra)
    path = os.path.join(EVIDENCE_DIR, prop + ".json")
    tmp = path + ".tmp"
    with open(tmp, "w") as f:
        json.dump(ev, f, indent=1, sort_keys=False, default=str)
    os.replace(tmp, path)
    return path
