//! Helpers shared by the harnesses: independent reference tables written from the RFCs.
use crate::{OPCODE, RCODE};

/// RFC 1035 / 2136 / 1996 opcode table, as the library names them.
pub fn ref_opcode(code: u16) -> OPCODE {
    match code {
        0 => OPCODE::StandardQuery,
        1 => OPCODE::InverseQuery,
        2 => OPCODE::ServerStatusRequest,
        4 => OPCODE::Notify,
        5 => OPCODE::Update,
        _ => OPCODE::Reserved,
    }
}

/// RCODE table (RFC 1035, 2136, 6891).
pub fn ref_rcode(code: u16) -> RCODE {
    match code {
        0 => RCODE::NoError,
        1 => RCODE::FormatError,
        2 => RCODE::ServerFailure,
        3 => RCODE::NameError,
        4 => RCODE::NotImplemented,
        5 => RCODE::Refused,
        6 => RCODE::YXDOMAIN,
        7 => RCODE::YXRRSET,
        8 => RCODE::NXRRSET,
        9 => RCODE::NOTAUTH,
        10 => RCODE::NOTZONE,
        16 => RCODE::BADVERS,
        _ => RCODE::Reserved,
    }
}

/// Wire value of every *named* opcode (None for Reserved, which carries no value).
pub fn named_opcode_value(op: OPCODE) -> Option<u16> {
    match op {
        OPCODE::StandardQuery => Some(0),
        OPCODE::InverseQuery => Some(1),
        OPCODE::ServerStatusRequest => Some(2),
        OPCODE::Notify => Some(4),
        OPCODE::Update => Some(5),
        OPCODE::Reserved => None,
    }
}

/// Wire value of every *named* rcode (None for Reserved).
pub fn named_rcode_value(rc: RCODE) -> Option<u16> {
    match rc {
        RCODE::NoError => Some(0),
        RCODE::FormatError => Some(1),
        RCODE::ServerFailure => Some(2),
        RCODE::NameError => Some(3),
        RCODE::NotImplemented => Some(4),
        RCODE::Refused => Some(5),
        RCODE::YXDOMAIN => Some(6),
        RCODE::YXRRSET => Some(7),
        RCODE::NXRRSET => Some(8),
        RCODE::NOTAUTH => Some(9),
        RCODE::NOTZONE => Some(10),
        RCODE::BADVERS => Some(16),
        RCODE::Reserved => None,
    }
}

pub fn any_named_opcode() -> OPCODE {
    let k: u8 = kani::any();
    kani::assume(k < 5);
    match k {
        0 => OPCODE::StandardQuery,
        1 => OPCODE::InverseQuery,
        2 => OPCODE::ServerStatusRequest,
        3 => OPCODE::Notify,
        _ => OPCODE::Update,
    }
}

pub fn any_named_rcode() -> RCODE {
    let k: u8 = kani::any();
    kani::assume(k < 12);
    match k {
        0 => RCODE::NoError,
        1 => RCODE::FormatError,
        2 => RCODE::ServerFailure,
        3 => RCODE::NameError,
        4 => RCODE::NotImplemented,
        5 => RCODE::Refused,
        6 => RCODE::YXDOMAIN,
        7 => RCODE::YXRRSET,
        8 => RCODE::NXRRSET,
        9 => RCODE::NOTAUTH,
        10 => RCODE::NOTZONE,
        _ => RCODE::BADVERS,
    }
}

/// The seven flag bits of RFC 1035 4.1.1 / RFC 4035, MSB-first numbering of the flags word.
pub const QR: u16 = 1 << 15;
pub const AA: u16 = 1 << 10;
pub const TC: u16 = 1 << 9;
pub const RD: u16 = 1 << 8;
pub const RA: u16 = 1 << 7;
pub const Z: u16 = 1 << 6;
pub const AD: u16 = 1 << 5;
pub const CD: u16 = 1 << 4;
pub const ALL_FLAG_BITS: u16 = QR | AA | TC | RD | RA | AD | CD;

use crate::dns::name::Name;
use crate::SimpleDnsError;

pub fn any_error() -> SimpleDnsError {
    let k: u8 = kani::any();
    match k % 4 {
        0 => SimpleDnsError::InsufficientData,
        1 => SimpleDnsError::InvalidDnsPacket,
        2 => SimpleDnsError::InvalidServiceLabel,
        _ => SimpleDnsError::InvalidCharacterString,
    }
}

/// Contract stub for `<Name as WireFormat>::parse` (assume/guarantee, DESIGN.md 2.3).
/// The contract itself is discharged for the real `Name::parse` by engine M (C06.contract):
///   Err(_)  : cursor anywhere in [old, max(old, len)]
///   Ok(name): old < cursor <= len   (requires old < len)
pub fn name_parse_stub<'a>(data: &'a [u8], position: &mut usize) -> crate::Result<Name<'a>>
where
    'a: 'a,
{
    let old = *position;
    let np: usize = kani::any();
    if kani::any() {
        kani::assume(np >= old && (np <= data.len() || np == old));
        *position = np;
        Err(any_error())
    } else {
        kani::assume(old < data.len());
        kani::assume(np > old && np <= data.len());
        *position = np;
        Ok(Name::new_with_labels(&[]))
    }
}
