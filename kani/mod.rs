//! Kani proof harnesses for simple-dns (engine K).  Mounted under `crate::dns` by the overlay
//! builder in /verif/lib/kani_runner.py, so crate-private items are reachable without hooks.
pub(crate) mod util;
pub(crate) mod gen_tables;
mod gen_c01;
mod gen_c18;
mod c01;
mod c08;
mod c09;
mod c12;
mod c17;
mod c18;
mod c19;
