//! Kani proof harnesses for simple-dns (engine K).  Mounted under `crate::dns` by the overlay
//! builder in /verif/lib/kani_runner.py, so crate-private items are reachable without hooks.
pub(crate) mod util;
mod c08;
