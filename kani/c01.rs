//! C01 - parsing untrusted bytes never panics (engine K part: peek functions, header,
//! character-strings; the per-type RDATA parsers are in the generated module gen_c01).
use crate::dns::header::Header;
use crate::dns::WireFormat;
use crate::{header_buffer, CharacterString, PacketFlag};

const N: usize = 16;

/// every header-peek function on every buffer of length 0..=16: returns, never panics;
/// Ok exactly when the bytes it reads are present
#[kani::proof]
#[kani::unwind(18)]
fn peek_any_length() {
    let data: [u8; N] = kani::any();
    let n: usize = kani::any();
    kani::assume(n <= N);
    let b = &data[..n];
    assert!(header_buffer::id(b).is_ok() == (n >= 2), "id");
    assert!(header_buffer::questions(b).is_ok() == (n >= 6), "questions");
    assert!(header_buffer::answers(b).is_ok() == (n >= 8), "answers");
    assert!(header_buffer::name_servers(b).is_ok() == (n >= 10), "name_servers");
    assert!(header_buffer::additional_records(b).is_ok() == (n >= 12), "additional_records");
    let f = PacketFlag::from_bits_truncate(kani::any());
    assert!(header_buffer::has_flags(b, f).is_ok() == (n >= 4), "has_flags");
    assert!(header_buffer::rcode(b).is_ok() == (n >= 4), "rcode");
    assert!(header_buffer::opcode(b).is_ok() == (n >= 4), "opcode");
    kani::cover!(n == 0);
    kani::cover!(n == 3);
    kani::cover!(n == 12);
}

/// Header::parse on any slice: no panic; Err iff shorter than 12 bytes or Z bit set
#[kani::proof]
#[kani::unwind(18)]
fn header_any_length() {
    let data: [u8; N] = kani::any();
    let n: usize = kani::any();
    kani::assume(n <= N);
    let r = Header::parse(&data[..n]);
    let z = n >= 4 && data[3] & 0x40 != 0;
    assert!(r.is_ok() == (n >= 12 && !z));
    kani::cover!(n == 11);
    kani::cover!(n == 12 && z);
    std::mem::forget(r);
}

/// CharacterString::parse with any cursor (even past the end): no panic; Ok => cursor advanced by
/// 1 + length byte and still inside the buffer
#[kani::proof]
#[kani::unwind(18)]
fn character_string_parse() {
    let data: [u8; N] = kani::any();
    let n: usize = kani::any();
    kani::assume(n <= N);
    let mut pos: usize = kani::any();
    kani::assume(pos <= n + 1);
    let start = pos;
    let r = CharacterString::parse(&data[..n], &mut pos);
    match &r {
        Ok(cs) => {
            assert!(start < n);
            let l = data[start] as usize;
            assert!(pos == start + 1 + l, "cursor just past the string");
            assert!(pos <= n, "string inside the buffer");
            assert!(cs.data.len() == l);
            kani::cover!(l == 0);
            kani::cover!(pos == n && l > 0);
        }
        Err(_) => {
            assert!(start >= n || start + 1 + data[start] as usize > n, "well-formed string rejected");
            kani::cover!(start >= n);
            kani::cover!(start < n);
        }
    }
    std::mem::forget(r);
}
