//! C17 (engine K part) - label grammar: 1-63 bytes, first alnum or '_', inner alnum / '-' / '_',
//! last alnum.  Oracle written from the statement with explicit byte ranges.
use crate::dns::name::Label;

fn alnum(c: u8) -> bool {
    (c >= b'0' && c <= b'9') || (c >= b'a' && c <= b'z') || (c >= b'A' && c <= b'Z')
}

fn oracle(d: &[u8]) -> bool {
    let n = d.len();
    if n == 0 || n > 63 {
        return false;
    }
    if !(alnum(d[0]) || d[0] == b'_') {
        return false;
    }
    if !alnum(d[n - 1]) {
        return false;
    }
    let mut i = 1;
    while i < n {
        if !(alnum(d[i]) || d[i] == b'-' || d[i] == b'_') {
            return false;
        }
        i += 1;
    }
    true
}

/// all byte strings of length 0..=6 (all 256 values per byte)
#[kani::proof]
#[kani::unwind(9)]
fn label_grammar_short() {
    let data: [u8; 6] = kani::any();
    let n: usize = kani::any();
    kani::assume(n <= 6);
    let r = Label::new(&data[..n]);
    assert!(r.is_ok() == oracle(&data[..n]), "Label::new accepts exactly the grammar");
    kani::cover!(r.is_ok() && n == 6);
    kani::cover!(r.is_err() && n == 3);
    kani::cover!(r.is_ok() && n == 1);
    std::mem::forget(r);
}

/// length boundary: labels of 60..=66 bytes, symbolic content
#[kani::proof]
#[kani::unwind(69)]
fn label_grammar_long() {
    let data: [u8; 66] = kani::any();
    let n: usize = kani::any();
    kani::assume(n >= 60 && n <= 66);
    let r = Label::new(&data[..n]);
    assert!(r.is_ok() == oracle(&data[..n]), "Label::new at the 63-byte boundary");
    kani::cover!(r.is_ok() && n == 63);
    kani::cover!(r.is_err() && n == 64);
    std::mem::forget(r);
}
