//! C09 - EDNS(0) TTL packing per RFC 6891 6.1.3:
//!   TTL = EXTENDED-RCODE(8, bits 31..24) | VERSION(8, bits 23..16) | DO/Z flags(16, bits 15..0)
//!   12-bit rcode = EXTENDED-RCODE << 4 | header RCODE(4)
use super::util::*;
use crate::dns::header::Header;
use crate::dns::WireFormat;
use crate::rdata::OPT;

#[kani::proof]
#[kani::unwind(2)]
fn ttl_encode() {
    let version: u8 = kani::any();
    let mut h = Header::new_query(kani::any());
    h.response_code = any_named_rcode();
    let rc = named_rcode_value(h.response_code).unwrap();
    let opt = OPT { opt_codes: Vec::new(), udp_packet_size: kani::any(), version };
    let ttl = opt.encode_ttl(&h);
    assert!((ttl >> 24) as u16 == rc >> 4, "EXTENDED-RCODE occupies TTL bits 31..24");
    assert!(((ttl >> 16) & 0xFF) as u8 == version, "VERSION occupies TTL bits 23..16");
    assert!(ttl & 0xFFFF == 0, "flag bits (DO/Z) are written as zero");
    kani::cover!(rc == 16 && version == 3);
    std::mem::forget(opt);
}

#[kani::proof]
#[kani::unwind(2)]
fn ttl_decode() {
    let ttl: u32 = kani::any();
    let low: u16 = kani::any();
    kani::assume(low < 16);
    let mut h = Header::new_query(0);
    h.response_code = ref_rcode(low);
    // a Reserved low nibble carries no value; the 12-bit recombination is only defined for named nibbles
    kani::assume(named_rcode_value(h.response_code) == Some(low));
    let rc = OPT::extract_rcode_from_ttl(ttl, &h);
    let full = (((ttl >> 24) as u16) << 4) | low;
    assert!(rc == ref_rcode(full), "12-bit rcode = TTL[31..24] << 4 | header nibble");
    kani::cover!(full == 16);
    kani::cover!(full == 3);
}

/// OPT::parse reads payload size from CLASS and version from TTL bits 23..16
#[kani::proof]
#[kani::unwind(4)]
fn opt_parse_fixed_part() {
    let data: [u8; 10] = kani::any();
    let mut pos = 0usize;
    match OPT::parse(&data[..], &mut pos) {
        Ok(o) => {
            assert!(o.udp_packet_size == u16::from_be_bytes([data[2], data[3]]), "payload size = CLASS");
            assert!(o.version == data[5], "version = TTL bits 23..16");
            assert!(o.opt_codes.is_empty());
            assert!(pos == 10);
            kani::cover!(o.version == 7);
            std::mem::forget(o);
        }
        Err(_) => assert!(false, "OPT with empty RDATA rejected"),
    }
}
