//! C18 - type/class codes map one-to-one and query matching is exact.  All harnesses range over the
//! full 16-bit code space symbolically.
use super::gen_tables::*;
use super::util::name_parse_stub;
use crate::dns::WireFormat;
use crate::rdata::RData;
use crate::{Name, ResourceRecord, CLASS, QCLASS, QTYPE, TYPE};
use std::convert::TryFrom;

fn ref_class(code: u16) -> Option<CLASS> {
    match code {
        1 => Some(CLASS::IN),
        2 => Some(CLASS::CS),
        3 => Some(CLASS::CH),
        4 => Some(CLASS::HS),
        254 => Some(CLASS::NONE),
        _ => None,
    }
}

#[kani::proof]
#[kani::unwind(2)]
fn type_codes() {
    check_type_code_consts();
    let code: u16 = kani::any();
    let t = TYPE::from(code);
    assert!(t == ref_type_of(code), "mnemonic <-> IANA number");
    assert!(u16::from(t) == code, "code -> TYPE -> code");
    assert!(ref_code_of(t) == code);
    assert!(matches!(t, TYPE::Unknown(_)) == !is_supported_code(code));
    // and the other direction for every TYPE value
    let code2: u16 = kani::any();
    let t2 = ref_type_of(code2);
    assert!(TYPE::from(u16::from(t2)) == t2, "TYPE -> code -> TYPE");
    kani::cover!(code == 257);
    kani::cover!(!is_supported_code(code));
}

#[kani::proof]
#[kani::unwind(2)]
fn class_codes() {
    let code: u16 = kani::any();
    match CLASS::try_from(code) {
        Ok(c) => {
            assert!(Some(c) == ref_class(code));
            assert!(c as u16 == code, "code -> CLASS -> code");
            kani::cover!(code == 254);
        }
        Err(_) => {
            assert!(ref_class(code).is_none(), "supported class rejected");
            kani::cover!(true);
        }
    }
}

#[kani::proof]
#[kani::unwind(2)]
fn qtype_codes() {
    let code: u16 = kani::any();
    match QTYPE::try_from(code) {
        Ok(q) => {
            assert!(u16::from(q) == code, "code -> QTYPE -> code");
            match q {
                QTYPE::IXFR => assert!(code == 251),
                QTYPE::AXFR => assert!(code == 252),
                QTYPE::MAILB => assert!(code == 253),
                QTYPE::MAILA => assert!(code == 254),
                QTYPE::ANY => assert!(code == 255),
                QTYPE::TYPE(t) => {
                    assert!(is_supported_code(code), "unsupported code aliased to a type");
                    assert!(t == ref_type_of(code));
                }
            }
            kani::cover!(code == 253);
            kani::cover!(code == 33);
        }
        Err(_) => {
            assert!(!is_supported_code(code) && !(251..=255).contains(&code), "supported qtype rejected");
            kani::cover!(true);
        }
    }
}

#[kani::proof]
#[kani::unwind(2)]
fn qclass_codes() {
    let code: u16 = kani::any();
    match QCLASS::try_from(code) {
        Ok(q) => {
            assert!(u16::from(q) == code, "code -> QCLASS -> code");
            match q {
                QCLASS::ANY => assert!(code == 255),
                QCLASS::CLASS(c) => assert!(Some(c) == ref_class(code)),
            }
            kani::cover!(code == 255);
            kani::cover!(code == 3);
        }
        Err(_) => {
            assert!(ref_class(code).is_none() && code != 255, "supported qclass rejected");
            kani::cover!(true);
        }
    }
}

fn record_of(t: TYPE, class: CLASS) -> ResourceRecord<'static> {
    ResourceRecord::new(Name::new_with_labels(&[]), class, 0, RData::Empty(t))
}

/// match_qtype over (every supported record type code) x {TYPE(t) for every supported code, ANY, MAILB}
#[kani::proof]
#[kani::unwind(2)]
fn match_qtype() {
    let rc: u16 = kani::any();
    kani::assume(is_supported_code(rc));
    let rr = record_of(TYPE::from(rc), CLASS::IN);
    let qc: u16 = kani::any();
    kani::assume(is_supported_code(qc) || qc == 255 || qc == 253);
    let q = QTYPE::try_from(qc).unwrap();
    let expected = if qc == 255 {
        true
    } else if qc == 253 {
        is_mailb_member(rc)
    } else {
        qc == rc
    };
    assert!(rr.match_qtype(q) == expected, "match_qtype");
    kani::cover!(qc == 253 && is_mailb_member(rc));
    kani::cover!(qc == rc);
    kani::cover!(qc != rc && qc != 255 && qc != 253);
    std::mem::forget(rr);
}

#[kani::proof]
#[kani::unwind(2)]
fn match_qclass() {
    let cc: u16 = kani::any();
    let qc: u16 = kani::any();
    let (c, q) = match (CLASS::try_from(cc), QCLASS::try_from(qc)) {
        (Ok(c), Ok(q)) => (c, q),
        _ => return,
    };
    let rr = record_of(TYPE::A, c);
    assert!(rr.match_qclass(q) == (qc == 255 || qc == cc), "match_qclass");
    kani::cover!(qc == 255);
    kani::cover!(qc == cc);
    kani::cover!(qc != cc && qc != 255);
    std::mem::forget(rr);
}

/// NULL / unknown-type records built from parts report the type their code denotes
#[kani::proof]
#[kani::unwind(2)]
fn typecode_null_constructed() {
    let code: u16 = kani::any();
    // every code, also one of a supported type carried as opaque RDATA (RData::NULL(16, ..) is a TXT-typed record)
    let v = RData::NULL(code, crate::rdata::NULL::new(&[]).unwrap());
    assert!(v.type_code() == ref_type_of(code), "type_code of a NULL/unknown-type record");
    assert!(u16::from(v.type_code()) == code);
    kani::cover!(code == 10);
    kani::cover!(code == 16);
    kani::cover!(code == 65280);
    let e = RData::Empty(ref_type_of(code));
    assert!(e.type_code() == ref_type_of(code));
    // the owned copy still reports the type its code denotes
    let o = RData::NULL(code, crate::rdata::NULL::new(&[]).unwrap()).into_owned();
    assert!(o.type_code() == ref_type_of(code), "type_code after into_owned");
    std::mem::forget(o);
    std::mem::forget(v);
    std::mem::forget(e);
}

fn parse_one(code: u16, rdlen: u16) -> Option<TYPE> {
    // TYPE CLASS TTL RDLENGTH RDATA
    let c = code.to_be_bytes();
    let l = rdlen.to_be_bytes();
    let data: [u8; 12] = [c[0], c[1], 0, 1, 0, 0, 0, 0, l[0], l[1], 0xAA, 0xBB];
    let mut pos = 0usize;
    match RData::parse(&data[..10 + rdlen as usize], &mut pos) {
        Ok(r) => {
            let t = r.type_code();
            std::mem::forget(r);
            Some(t)
        }
        Err(_) => None,
    }
}

/// records obtained by parsing with empty RDATA: the reported type is the one the code on the wire denotes (all codes)
#[kani::proof]
#[kani::unwind(4)]
#[kani::stub(<crate::dns::name::Name as crate::dns::wire_format::WireFormat>::parse, name_parse_stub)]
fn typecode_parsed() {
    let code: u16 = kani::any();
    kani::assume(code != 41);
    match parse_one(code, 0) {
        Some(t) => assert!(t == ref_type_of(code), "type of a parsed empty-RDATA record"),
        None => assert!(false, "empty RDATA rejected"),
    }
    kani::cover!(code == 10);
    kani::cover!(code == 65280);
}
