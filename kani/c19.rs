//! C19 (engine K part) - character-string construction refuses over-long input instead of truncating.
use crate::dns::WireFormat;
use crate::CharacterString;
use std::convert::TryFrom;

const M: usize = 300;

#[kani::proof]
#[kani::unwind(4)]
fn cs_new_len() {
    let data = [b'a'; M];
    let n: usize = kani::any();
    kani::assume(n <= M);
    let r = CharacterString::new(&data[..n]);
    assert!(r.is_ok() == (n <= 255), "accepted exactly when it fits one length octet");
    if let Ok(cs) = &r {
        assert!(cs.len() == n + 1, "wire length = 1 + content");
        assert!(cs.data.len() as u8 as usize == n, "length octet is exact (no truncation)");
        kani::cover!(n == 255);
        kani::cover!(n == 0);
    } else {
        kani::cover!(n == 256);
    }
    std::mem::forget(r);
}

#[kani::proof]
#[kani::unwind(4)]
fn cs_try_from_str() {
    let data = [b'a'; M];
    let n: usize = kani::any();
    kani::assume(n <= M);
    let s = unsafe { std::str::from_utf8_unchecked(&data[..n]) };
    let r = CharacterString::try_from(s);
    assert!(r.is_ok() == (n <= 255));
    kani::cover!(n == 255);
    kani::cover!(n == 256);
    std::mem::forget(r);
}

/// the length octet written on the wire is the content length (content bytes are only copied)
#[kani::proof]
#[kani::unwind(8)]
fn cs_write_len_octet() {
    let data: [u8; 4] = kani::any();
    let n: usize = kani::any();
    kani::assume(n <= 4);
    let cs = CharacterString::new(&data[..n]).unwrap();
    let mut out = [0xEEu8; 6];
    let mut w: &mut [u8] = &mut out[..];
    assert!(cs.write_to(&mut w).is_ok());
    assert!(w.len() == 6 - 1 - n, "1 + n bytes written");
    assert!(out[0] as usize == n);
    let mut i = 0;
    while i < n {
        assert!(out[1 + i] == data[i]);
        i += 1;
    }
    kani::cover!(n == 4);
    std::mem::forget(cs);
}
