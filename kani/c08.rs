//! C08 - header bits are read and written per RFC 1035 section 4.1.1.
//! Every harness ranges over *all* values of the symbolic words (no enumeration).
use super::util::*;
use crate::dns::header::Header;
use crate::{header_buffer, Packet, PacketFlag, OPCODE, RCODE};

fn flag_of(bit: u16) -> PacketFlag {
    PacketFlag::from_bits_truncate(bit)
}

/// the library's named flag constants sit on the RFC bit positions
#[kani::proof]
#[kani::unwind(2)]
fn flag_constants() {
    assert_eq!(PacketFlag::RESPONSE.bits(), QR);
    assert_eq!(PacketFlag::AUTHORITATIVE_ANSWER.bits(), AA);
    assert_eq!(PacketFlag::TRUNCATION.bits(), TC);
    assert_eq!(PacketFlag::RECURSION_DESIRED.bits(), RD);
    assert_eq!(PacketFlag::RECURSION_AVAILABLE.bits(), RA);
    assert_eq!(PacketFlag::AUTHENTIC_DATA.bits(), AD);
    assert_eq!(PacketFlag::CHECKING_DISABLED.bits(), CD);
    assert_eq!(PacketFlag::all().bits(), ALL_FLAG_BITS);
    kani::cover!(true);
}

/// Header::parse over all 2^96 twelve-byte headers
#[kani::proof]
#[kani::unwind(14)]
fn parse_header() {
    let data: [u8; 12] = kani::any();
    let id = ((data[0] as u16) << 8) | data[1] as u16;
    let word = ((data[2] as u16) << 8) | data[3] as u16;
    match Header::parse(&data) {
        Ok(h) => {
            assert!(word & Z == 0, "Z bit set must be rejected");
            assert_eq!(h.id, id);
            assert_eq!(h.has_flags(PacketFlag::RESPONSE), word & QR != 0);
            assert_eq!(h.has_flags(PacketFlag::AUTHORITATIVE_ANSWER), word & AA != 0);
            assert_eq!(h.has_flags(PacketFlag::TRUNCATION), word & TC != 0);
            assert_eq!(h.has_flags(PacketFlag::RECURSION_DESIRED), word & RD != 0);
            assert_eq!(h.has_flags(PacketFlag::RECURSION_AVAILABLE), word & RA != 0);
            assert_eq!(h.has_flags(PacketFlag::AUTHENTIC_DATA), word & AD != 0);
            assert_eq!(h.has_flags(PacketFlag::CHECKING_DISABLED), word & CD != 0);
            assert_eq!(h.z_flags.bits(), word & ALL_FLAG_BITS);
            assert!(h.opcode == ref_opcode((word >> 11) & 0xF));
            assert!(h.response_code == ref_rcode(word & 0xF));
            assert!(h.opt.is_none());
            kani::cover!(word & QR != 0 && (word >> 11) & 0xF == 5);
        }
        Err(_) => {
            assert!(word & Z != 0, "only the Z bit may cause rejection of a 12-byte header");
            kani::cover!(true);
        }
    }
}

/// the eight header-peek functions on a full 12-byte header
#[kani::proof]
#[kani::unwind(14)]
fn peek_fields() {
    let data: [u8; 12] = kani::any();
    let be = |i: usize| ((data[i] as u16) << 8) | data[i + 1] as u16;
    let word = be(2);
    assert!(header_buffer::id(&data) == Ok(be(0)));
    assert!(header_buffer::questions(&data) == Ok(be(4)));
    assert!(header_buffer::answers(&data) == Ok(be(6)));
    assert!(header_buffer::name_servers(&data) == Ok(be(8)));
    assert!(header_buffer::additional_records(&data) == Ok(be(10)));
    match header_buffer::opcode(&data) {
        Ok(op) => assert!(op == ref_opcode((word >> 11) & 0xF)),
        Err(_) => assert!(false, "opcode peek failed on a full header"),
    }
    match header_buffer::rcode(&data) {
        Ok(rc) => assert!(rc == ref_rcode(word & 0xF)),
        Err(_) => assert!(false, "rcode peek failed on a full header"),
    }
    // has_flags(S) <=> every bit of S is set in the word, for every subset S of the 7 flags
    let sel: u16 = kani::any();
    let s = sel & ALL_FLAG_BITS;
    assert!(header_buffer::has_flags(&data, flag_of(s)) == Ok(word & s == s));
    kani::cover!(s == (QR | AA) && word & s == s);
    kani::cover!(s == CD && word & s == 0);
}

/// set / remove / has on a header: only the named bits change; opcode, rcode, id untouched
#[kani::proof]
#[kani::unwind(2)]
fn flag_algebra() {
    let a: u16 = kani::any();
    let b: u16 = kani::any();
    let fa = flag_of(a);
    let fb = flag_of(b);
    let a = a & ALL_FLAG_BITS;
    let b = b & ALL_FLAG_BITS;
    let id: u16 = kani::any();
    let mut h = Header::new_query(id);
    h.opcode = any_named_opcode();
    h.response_code = any_named_rcode();
    let (op0, rc0) = (h.opcode, h.response_code);
    assert_eq!(h.z_flags.bits(), 0);
    h.set_flags(fa);
    assert_eq!(h.z_flags.bits(), a);
    h.set_flags(fb);
    assert_eq!(h.z_flags.bits(), a | b);
    assert!(h.has_flags(fa) && h.has_flags(fb));
    h.remove_flags(fb);
    assert_eq!(h.z_flags.bits(), a & !b);
    let c: u16 = kani::any();
    assert_eq!(h.has_flags(flag_of(c)), (a & !b) & (c & ALL_FLAG_BITS) == (c & ALL_FLAG_BITS));
    assert!(h.opcode == op0 && h.response_code == rc0 && h.id == id);
    // the same through the public Packet API
    let mut p = Packet::new_query(id);
    p.set_flags(fa);
    p.remove_flags(fb);
    assert_eq!(p.has_flags(flag_of(c)), (a & !b) & (c & ALL_FLAG_BITS) == (c & ALL_FLAG_BITS));
    assert_eq!(p.id(), id);
    assert!(p.opcode() == OPCODE::StandardQuery && p.rcode() == RCODE::NoError);
    kani::cover!(a & !b != 0 && a & b != 0);
    std::mem::forget(p);
}

/// Header::write_to: id, flags, every named opcode and rcode, four counts -> RFC composition
#[kani::proof]
#[kani::unwind(14)]
fn write_header() {
    let id: u16 = kani::any();
    let f: u16 = kani::any();
    let mut h = Header::new_query(id);
    h.set_flags(flag_of(f));
    h.opcode = any_named_opcode();
    h.response_code = any_named_rcode();
    let counts: [u16; 4] = kani::any();
    let mut out = [0u8; 12];
    let mut w: &mut [u8] = &mut out[..];
    let r = h.write_to(&mut w, counts[0], counts[1], counts[2], counts[3]);
    assert!(r.is_ok());
    assert!(w.is_empty(), "exactly 12 bytes are written");
    let opv = named_opcode_value(h.opcode).unwrap();
    let rcv = named_rcode_value(h.response_code).unwrap();
    let word = (f & ALL_FLAG_BITS) | (opv << 11) | (rcv & 0xF);
    let be = |i: usize| ((out[i] as u16) << 8) | out[i + 1] as u16;
    assert_eq!(be(0), id);
    assert_eq!(be(2), word);
    assert_eq!(be(4), counts[0]);
    assert_eq!(be(6), counts[1]);
    assert_eq!(be(8), counts[2]);
    assert_eq!(be(10), counts[3]);
    kani::cover!(opv == 5 && rcv == 16 && f & QR != 0);
}

