//! C12 (engine K part) - formatting data that came from the wire never panics.
use crate::dns::name::{Label, Name};
use crate::CharacterString;
use std::convert::TryFrom;

/// Display of a label with arbitrary bytes (covers every 1-4 byte UTF-8 validity class)
#[kani::proof]
#[kani::unwind(8)]
fn label_display() {
    let data: [u8; 4] = kani::any();
    let n: usize = kani::any();
    kani::assume(n <= 4);
    let l = Label::new_unchecked(&data[..n]);
    let s = l.to_string();
    kani::cover!(std::str::from_utf8(&data[..n]).is_err());
    kani::cover!(n == 4 && std::str::from_utf8(&data[..n]).is_ok());
    std::mem::forget(s);
    std::mem::forget(l);
}

/// Display of a character-string with arbitrary bytes
#[kani::proof]
#[kani::unwind(8)]
fn cs_display() {
    let data: [u8; 4] = kani::any();
    let n: usize = kani::any();
    kani::assume(n <= 4);
    let c = CharacterString::new(&data[..n]).unwrap();
    let s = c.to_string();
    kani::cover!(std::str::from_utf8(&data[..n]).is_err());
    std::mem::forget(s);
    std::mem::forget(c);
}

/// String::try_from(CharacterString) reports an error (never panics) on invalid UTF-8
#[kani::proof]
#[kani::unwind(8)]
fn cs_into_string() {
    let data: [u8; 4] = kani::any();
    let n: usize = kani::any();
    kani::assume(n <= 4);
    let c = CharacterString::new(&data[..n]).unwrap();
    let valid = std::str::from_utf8(&data[..n]).is_ok();
    let r = String::try_from(c);
    assert!(r.is_ok() == valid);
    kani::cover!(!valid);
    kani::cover!(valid && n == 4);
    std::mem::forget(r);
}
