//! Native replay of engine-M counter-examples (mounted as a #[cfg(test)] module by the overlay builder in
//! /verif/mirsym/runner.py).  Reads $VERIF_CASE.kv (key=value lines, bytes in hex) and prints one line
//! `REPLAY-RESULT {json}`.
use crate::dns::name::Name;
use crate::dns::WireFormat;
use crate::{Packet, ResourceRecord};
use std::collections::HashMap;

// counting allocator: total bytes requested from the allocator (the test binary is single-purpose)
struct Counting;
static ALLOCATED: std::sync::atomic::AtomicUsize = std::sync::atomic::AtomicUsize::new(0);
unsafe impl std::alloc::GlobalAlloc for Counting {
    unsafe fn alloc(&self, l: std::alloc::Layout) -> *mut u8 {
        ALLOCATED.fetch_add(l.size(), std::sync::atomic::Ordering::Relaxed);
        std::alloc::System.alloc(l)
    }
    unsafe fn dealloc(&self, p: *mut u8, l: std::alloc::Layout) {
        std::alloc::System.dealloc(p, l)
    }
    unsafe fn realloc(&self, p: *mut u8, l: std::alloc::Layout, n: usize) -> *mut u8 {
        ALLOCATED.fetch_add(n.saturating_sub(l.size()), std::sync::atomic::Ordering::Relaxed);
        std::alloc::System.realloc(p, l, n)
    }
}
#[global_allocator]
static COUNTING: Counting = Counting;

fn hex(b: &[u8]) -> String {
    b.iter().map(|x| format!("{:02x}", x)).collect()
}

fn unhex(s: &str) -> Vec<u8> {
    (0..s.len() / 2).map(|i| u8::from_str_radix(&s[2 * i..2 * i + 2], 16).unwrap()).collect()
}

fn load() -> HashMap<String, String> {
    let path = std::env::var("VERIF_CASE").expect("VERIF_CASE") + ".kv";
    let text = std::fs::read_to_string(path).expect("case file");
    text.lines()
        .filter_map(|l| l.split_once('='))
        .map(|(k, v)| (k.to_string(), v.to_string()))
        .collect()
}

fn labels_json(n: &Name) -> String {
    let v: Vec<String> = n.get_labels().iter().map(|l| format!("\"{}\"", hex(&{
        let mut out = Vec::new();
        // Label has no public byte accessor: serialise the single label and strip the length octet
        Name::new_with_labels(std::slice::from_ref(l)).write_to(&mut out).unwrap();
        out[1..out.len() - 1].to_vec()
    }))).collect();
    format!("[{}]", v.join(","))
}

fn run(case: &HashMap<String, String>) -> String {
    let entry = case.get("entry").map(|s| s.as_str()).unwrap_or("");
    let bytes = unhex(case.get("bytes").map(|s| s.as_str()).unwrap_or(""));
    match entry {
        "name_parse" => {
            let mut pos: usize = case["pos"].parse().unwrap();
            match Name::parse(&bytes, &mut pos) {
                Ok(n) => format!("{{\"outcome\":\"ok\",\"labels\":{},\"end\":{}}}", labels_json(&n), pos),
                Err(_) => "{\"outcome\":\"err\"}".to_string(),
            }
        }
        "packet_parse" => match Packet::parse(&bytes) {
            Ok(p) => format!(
                "{{\"outcome\":\"ok\",\"questions\":{},\"answers\":{},\"name_servers\":{},\"additional\":{}}}",
                p.questions.len(), p.answers.len(), p.name_servers.len(), p.additional_records.len()
            ),
            Err(_) => "{\"outcome\":\"err\"}".to_string(),
        },
        "name_new" => {
            let text = match std::str::from_utf8(&bytes) {
                Ok(t) => t,
                Err(_) => return "{\"outcome\":\"not-utf8\"}".to_string(),
            };
            match Name::new(text) {
                Ok(n) => {
                    let shown = n.to_string();
                    let again = match Name::new(&shown) {
                        Ok(m) => if m == n { "ok" } else { "differs" },
                        Err(_) => "err",
                    };
                    format!("{{\"outcome\":\"ok\",\"shown\":\"{}\",\"again\":\"{}\",\"labels\":{}}}",
                            hex(shown.as_bytes()), again, labels_json(&n))
                }
                Err(_) => "{\"outcome\":\"err\"}".to_string(),
            }
        }
        "suffix" => {
            let mk = |key: &str| -> Name<'static> {
                let ls: Vec<crate::dns::name::Label<'static>> = case[key]
                    .split(',')
                    .filter(|x| !x.is_empty())
                    .map(|h| crate::dns::name::Label::new_unchecked(unhex(h)))
                    .collect();
                Name::new_with_labels(&ls)
            };
            let (a, b) = (mk("a"), mk("b"));
            let sub = a.is_subdomain_of(&b);
            let wo = match a.without(&b) {
                Some(n) => labels_json(&n),
                None => "null".to_string(),
            };
            format!("{{\"outcome\":\"ok\",\"sub\":{},\"without\":{},\"local\":{}}}", sub, wo, a.is_link_local())
        }
        "rdata_parse" => {
            let mut pos: usize = case["pos"].parse().unwrap();
            let start = pos;
            macro_rules! go {
                ($t:ty) => {
                    match <$t as WireFormat>::parse(&bytes, &mut pos) {
                        Ok(_) if pos > bytes.len() || pos < start => "{\"outcome\":\"cursor\"}".to_string(),
                        Ok(_) => format!("{{\"outcome\":\"ok\",\"end\":{}}}", pos),
                        Err(_) => "{\"outcome\":\"err\"}".to_string(),
                    }
                };
            }
            match case["type"].as_str() {
                "TXT" => go!(crate::rdata::TXT),
                "OPT" => go!(crate::rdata::OPT),
                "NSEC" => go!(crate::rdata::NSEC),
                "SVCB" => go!(crate::rdata::SVCB),
                "HTTPS" => go!(crate::rdata::HTTPS),
                _ => "{\"outcome\":\"unknown-type\"}".to_string(),
            }
        }
        "observe_rr" | "observe_packet" => {
            use std::collections::hash_map::DefaultHasher;
            use std::convert::TryFrom;
            use std::hash::{Hash, Hasher};
            let observe = |rr: &ResourceRecord| {
                let _ = format!("{:?}", rr);
                let _ = format!("{}", rr.name);
                let c = rr.clone();
                let o = c.clone().into_owned();
                let _ = o == *rr;
                let mut h = DefaultHasher::new();
                rr.hash(&mut h);
                let _ = h.finish();
                let _ = rr.match_qtype(crate::QTYPE::MAILB);
                let _ = rr.match_qclass(crate::QCLASS::ANY);
                // name observers
                let _ = rr.name.is_link_local();
                let _ = rr.name.is_subdomain_of(&rr.name);
                let _ = rr.name.without(&rr.name);
                let _ = rr.name.get_labels().len();
                let _ = rr.name.iter().count();
                let _ = rr.name.len();
                if let crate::rdata::RData::TXT(txt) = &rr.rdata {
                    let _ = txt.attributes();
                    let _ = txt.clone().long_attributes();
                    let _ = String::try_from(txt.clone());
                }
            };
            if entry == "observe_rr" {
                let mut pos = 0usize;
                match ResourceRecord::parse(&bytes, &mut pos) {
                    Ok(rr) => { observe(&rr); "{\"outcome\":\"ok\"}".to_string() }
                    Err(_) => "{\"outcome\":\"err\"}".to_string(),
                }
            } else {
                match Packet::parse(&bytes) {
                    Ok(p) => {
                        let _ = format!("{:?}", p);
                        for rr in p.answers.iter().chain(p.name_servers.iter()).chain(p.additional_records.iter()) { observe(rr); }
                        for q in &p.questions { let _ = format!("{:?} {}", q, q.qname); }
                        let _ = p.clone();
                        "{\"outcome\":\"ok\"}".to_string()
                    }
                    Err(_) => "{\"outcome\":\"err\"}".to_string(),
                }
            }
        }
        "txt_cs" => {
            use std::collections::HashMap;
            use std::convert::TryFrom;
            let n: usize = case["n"].parse().unwrap();
            let mut fails: Vec<&str> = Vec::new();
            let text = "a".repeat(n);
            if crate::CharacterString::try_from(text.clone()).is_ok() != (n <= 255) { fails.push("length"); }
            if crate::CharacterString::try_from(text.as_str()).is_ok() != (n <= 255) { fails.push("length"); }
            if crate::CharacterString::new(text.as_bytes()).is_ok() != (n <= 255) { fails.push("length"); }
            let mut map: HashMap<String, Option<String>> = HashMap::new();
            map.insert("k".to_string(), Some("v".repeat(254)));
            if crate::rdata::TXT::try_from(map).is_ok() { fails.push("length"); }
            format!("{{\"outcome\":\"ok\",\"fails\":[{}]}}", fails.iter().map(|s| format!("\"{}\"", s)).collect::<Vec<_>>().join(","))
        }
        "txt_chunk" | "txt_long" | "txt_attr" | "txt_dup" => {
            use std::collections::HashMap;
            use std::convert::TryFrom;
            let mut fails: Vec<&str> = Vec::new();
            if entry == "txt_chunk" {
                let text = std::str::from_utf8(&bytes).unwrap();
                match crate::rdata::TXT::try_from(text) {
                    Ok(t) => {
                        let mut out = Vec::new();
                        if t.write_to(&mut out).is_err() || t.len() != out.len() { fails.push("wire-len"); }
                        let rr = ResourceRecord::new(Name::new_unchecked("a"), crate::CLASS::IN, 1, crate::rdata::RData::TXT(t.clone()));
                        let mut pk = Packet::new_reply(1);
                        pk.answers.push(rr);
                        match pk.build_bytes_vec().map(|b| Packet::parse(&b).map(|p| p.answers.len())) {
                            Ok(Ok(1)) => {}
                            _ => fails.push("wire-parse"),
                        }
                        match String::try_from(t) {
                            Ok(back) => if back != text { fails.push("lossy"); },
                            Err(_) => fails.push("join"),
                        }
                    }
                    Err(_) => fails.push("reject"),
                }
            } else if entry == "txt_long" {
                let text = std::str::from_utf8(&bytes).unwrap().to_string();
                let mut want: HashMap<String, Option<String>> = HashMap::new();
                for part in text.split(';') {
                    let mut it = part.splitn(2, '=');
                    let k = it.next().unwrap_or("");
                    let v = it.next().map(|x| x.to_string());
                    if !k.is_empty() { want.entry(k.to_string()).or_insert(v); }
                }
                let t = crate::rdata::TXT::new().with_char_string(crate::CharacterString::new(&bytes).unwrap());
                match t.long_attributes() {
                    Ok(got) => if got != want { fails.push("split"); },
                    Err(_) => fails.push("reject"),
                }
            } else {
                let get = |k: &str| case.get(k).map(|h| String::from_utf8(unhex(h)).unwrap());
                let mut map: HashMap<String, Option<String>> = HashMap::new();
                for i in 0..2 {
                    if let Some(k) = get(&format!("k{}", i)) {
                        map.insert(k, get(&format!("v{}", i)));
                    }
                }
                match crate::rdata::TXT::try_from(map.clone()) {
                    Ok(t) => if t.attributes() != map { fails.push("lossy"); },
                    Err(_) => fails.push("reject"),
                }
            }
            format!("{{\"outcome\":\"ok\",\"fails\":[{}]}}", fails.iter().map(|s| format!("\"{}\"", s)).collect::<Vec<_>>().join(","))
        }
        "reserialize" => {
            let mut fails: Vec<String> = Vec::new();
            match Packet::parse(&bytes) {
                Ok(p) => {
                    let shown = format!("{:?}", p);
                    for (name, out) in [("plain", p.build_bytes_vec()), ("comp", p.build_bytes_vec_compressed())] {
                        match out {
                            Ok(b) => match Packet::parse(&b) {
                                Ok(q) => {
                                    if q.rcode() != p.rcode() {
                                        fails.push(format!("rcode-{:?}", p.rcode()));
                                    } else if format!("{:?}", q) != shown {
                                        fails.push(format!("fields-{}", name));
                                    }
                                }
                                Err(_) => fails.push(format!("reparse-{}", name)),
                            },
                            Err(_) => fails.push(format!("build-{}", name)),
                        }
                    }
                    format!("{{\"outcome\":\"ok\",\"fails\":[{}]}}", fails.iter().map(|s| format!("\"{}\"", s)).collect::<Vec<_>>().join(","))
                }
                Err(_) => "{\"outcome\":\"err\",\"fails\":[]}".to_string(),
            }
        }
        "packet_parse_alloc" => {
            let before = ALLOCATED.load(std::sync::atomic::Ordering::Relaxed);
            let r = Packet::parse(&bytes);
            let used = ALLOCATED.load(std::sync::atomic::Ordering::Relaxed) - before;
            drop(r);
            // "modest linear function of the input length"
            let budget = 32 * bytes.len() + 1024;
            format!("{{\"outcome\":\"{}\",\"allocated\":{},\"budget\":{}}}", if used > budget { "alloc" } else { "ok" }, used, budget)
        }
        "question_rt" => {
            let mut fails: Vec<&str> = Vec::new();
            let mut pos = 0usize;
            match crate::Question::parse(&bytes, &mut pos) {
                Ok(q) => {
                    let mut out = Vec::new();
                    if q.write_to(&mut out).is_err() || out != bytes { fails.push("bytes"); }
                    if q.len() != bytes.len() { fails.push("len"); }
                    if pos != bytes.len() { fails.push("fields"); }
                    let tl = bytes.len();
                    let code = u16::from_be_bytes([bytes[tl - 4], bytes[tl - 3]]);
                    if u16::from(q.qtype) != code { fails.push("fields"); }
                    if q.unicast_response != (bytes[tl - 2] & 0x80 != 0) { fails.push("fields"); }
                    if u16::from(q.qclass) != (u16::from_be_bytes([bytes[tl - 2], bytes[tl - 1]]) & 0x7FFF) { fails.push("fields"); }
                }
                Err(_) => fails.push("parse"),
            }
            format!("{{\"outcome\":\"ok\",\"fails\":[{}]}}", fails.iter().map(|s| format!("\"{}\"", s)).collect::<Vec<_>>().join(","))
        }
        "packet_counts" => {
            let mut fails: Vec<&str> = Vec::new();
            if let Ok(p) = Packet::parse(&bytes) {
                let be = |i: usize| u16::from_be_bytes([bytes[i], bytes[i + 1]]) as usize;
                let got = [p.questions.len(), p.answers.len(), p.name_servers.len(), p.additional_records.len() + usize::from(p.opt().is_some())];
                for k in 0..4 {
                    if be(4 + 2 * k) != got[k] { fails.push("counts"); }
                }
            }
            format!("{{\"outcome\":\"ok\",\"fails\":[{}]}}", fails.iter().map(|s| format!("\"{}\"", s)).collect::<Vec<_>>().join(","))
        }
        "batch_rr" => {
            // translator validation: several records at once; "cases" = hex strings separated by ','
            let mut out: Vec<String> = Vec::new();
            for h in case["cases"].split(',') {
                let b = unhex(h);
                let mut pos = 0usize;
                let r = std::panic::catch_unwind(|| {
                    let mut pos = 0usize;
                    match ResourceRecord::parse(&b, &mut pos) {
                        Ok(rr) => {
                            let mut w = Vec::new();
                            let ok = rr.write_to(&mut w).is_ok();
                            format!("\"ok:{}:{}:{}:{}:{}:{}\"", pos, u16::from(rr.rdata.type_code()), rr.len(), rr.ttl, ok, hex(&w))
                        }
                        Err(_) => "\"err\"".to_string(),
                    }
                });
                let _ = &mut pos;
                out.push(r.unwrap_or_else(|_| "\"panic\"".to_string()));
            }
            format!("{{\"outcome\":\"ok\",\"results\":[{}]}}", out.join(","))
        }
        "packet_frame" => {
            let wp: usize = case["walker_pos"].parse().unwrap();
            let mut fails: Vec<&str> = Vec::new();
            match Packet::parse(&bytes) {
                Ok(p) => {
                    if bytes.len() < wp + 15 {
                        fails.push("overrun");
                    } else if p.answers.len() != 2 && !(p.answers.is_empty() && p.additional_records.len() == 1 && p.opt().is_some()) {
                        fails.push("count");
                    } else {
                        let r2 = if p.answers.len() == 2 { &p.answers[1] } else { &p.additional_records[0] };
                        let addr = u32::from_be_bytes([bytes[wp + 11], bytes[wp + 12], bytes[wp + 13], bytes[wp + 14]]);
                        let ttl = u32::from_be_bytes([bytes[wp + 5], bytes[wp + 6], bytes[wp + 7], bytes[wp + 8]]);
                        let ok = match &r2.rdata {
                            crate::rdata::RData::A(a) => a.address == addr && r2.ttl == ttl
                                && r2.cache_flush == (bytes[wp + 3] & 0x80 != 0) && r2.name.get_labels().is_empty(),
                            _ => false,
                        };
                        if !ok {
                            fails.push("next-entry");
                        }
                    }
                    format!("{{\"outcome\":\"ok\",\"fails\":[{}]}}", fails.iter().map(|s| format!("\"{}\"", s)).collect::<Vec<_>>().join(","))
                }
                Err(_) => "{\"outcome\":\"err\",\"fails\":[]}".to_string(),
            }
        }
        "rdata_names" => {
            // every domain name inside the single answer's RDATA must have the labels given in `want` (hex of len|bytes per label)
            let want = case["want"].to_lowercase();
            fn names_of<'x>(rd: &'x crate::rdata::RData<'x>) -> Vec<&'x Name<'x>> {
                use crate::rdata::RData::*;
                match rd {
                    NS(n) => vec![&n.0], MD(n) => vec![&n.0], MF(n) => vec![&n.0], CNAME(n) => vec![&n.0], MB(n) => vec![&n.0],
                    MG(n) => vec![&n.0], MR(n) => vec![&n.0], PTR(n) => vec![&n.0], NSAP_PTR(n) => vec![&n.0],
                    SOA(s) => vec![&s.mname, &s.rname], MINFO(m) => vec![&m.rmailbox, &m.emailbox], MX(m) => vec![&m.exchange],
                    RP(r) => vec![&r.mbox, &r.txt], AFSDB(a) => vec![&a.hostname], RouteThrough(r) => vec![&r.intermediate_host],
                    SRV(s) => vec![&s.target], NAPTR(n) => vec![&n.replacement], KX(k) => vec![&k.exchanger],
                    RRSIG(r) => vec![&r.signer_name], NSEC(n) => vec![&n.next_name], SVCB(s) => vec![&s.target], HTTPS(h) => vec![&h.0.target],
                    IPSECKEY(k) => match &k.gateway { crate::rdata::Gateway::Domain(n) => vec![n], _ => vec![] },
                    _ => vec![],
                }
            }
            match Packet::parse(&bytes) {
                Ok(p) => {
                    let mut fails: Vec<&str> = Vec::new();
                    if p.answers.len() != 1 { fails.push("count"); } else {
                        let ns = names_of(&p.answers[0].rdata);
                        if ns.is_empty() { fails.push("no-name"); }
                        for n in ns {
                            let got: String = n.get_labels().iter().map(|l| format!("{:02x}{}", l.as_bytes().len(), hex(l.as_bytes()))).collect();
                            if got != want { fails.push("rdata-name"); }
                        }
                    }
                    format!("{{\"outcome\":\"ok\",\"fails\":[{}]}}", fails.iter().map(|s| format!("\"{}\"", s)).collect::<Vec<_>>().join(","))
                }
                Err(_) => "{\"outcome\":\"err\",\"fails\":[\"rejected\"]}".to_string(),
            }
        }
        "packet_order" => {
            // the A records of the additional section, in the order of the wire (an OPT record among them is lifted out)
            let want: Vec<u32> = case["addrs"].split(',').filter(|s| !s.is_empty()).map(|s| s.parse().unwrap()).collect();
            match Packet::parse(&bytes) {
                Ok(p) => {
                    let got: Vec<u32> = p.additional_records.iter().filter_map(|r| match &r.rdata {
                        crate::rdata::RData::A(a) => Some(a.address),
                        _ => None,
                    }).collect();
                    let mut fails: Vec<&str> = Vec::new();
                    if got != want || p.additional_records.len() != want.len() || p.opt().is_none() { fails.push("order"); }
                    format!("{{\"outcome\":\"ok\",\"fails\":[{}]}}", fails.iter().map(|s| format!("\"{}\"", s)).collect::<Vec<_>>().join(","))
                }
                Err(_) => "{\"outcome\":\"err\",\"fails\":[\"rejected\"]}".to_string(),
            }
        }
        "rr_parse" => {
            let mut pos: usize = case["pos"].parse().unwrap();
            match ResourceRecord::parse(&bytes, &mut pos) {
                Ok(_) => format!("{{\"outcome\":\"ok\",\"end\":{}}}", pos),
                Err(_) => "{\"outcome\":\"err\"}".to_string(),
            }
        }
        _ => "{\"outcome\":\"unknown-entry\"}".to_string(),
    }
}

#[test]
fn verif_replay() {
    let case = load();
    // watchdog: a parse that does not come back within 10 s is reported as a hang
    let (tx, rx) = std::sync::mpsc::channel();
    std::thread::spawn(move || {
        let r = std::panic::catch_unwind(|| run(&case));
        let _ = tx.send(r.ok());
    });
    match rx.recv_timeout(std::time::Duration::from_secs(10)) {
        Ok(Some(s)) => println!("REPLAY-RESULT {}", s),
        Ok(None) => println!("REPLAY-RESULT {{\"outcome\":\"panic\"}}"),
        Err(_) => {
            println!("REPLAY-RESULT {{\"outcome\":\"hang\"}}");
            std::process::exit(0);
        }
    }
}
