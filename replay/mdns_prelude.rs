// Native replay prelude for simple-mdns cases (mounted as #[cfg(test)] mod verif_case by mirsym/runner.py).
use crate::resource_record_manager::{DomainResourceFilter, ResourceRecordManager};
use simple_dns::rdata::{RData, A, SRV, TXT};
use simple_dns::{CharacterString, Label, Name, Packet, Question, ResourceRecord, CLASS, QCLASS, QTYPE, TYPE};

fn nm(labels: &[&'static [u8]]) -> Name<'static> {
    let ls: Vec<Label<'static>> = labels.iter().map(|l| Label::new_unchecked(*l)).collect();
    Name::new_with_labels(&ls)
}

fn rec(owner: Name<'static>, class: CLASS, ttl: u32, flush: bool, rdata: RData<'static>) -> ResourceRecord<'static> {
    ResourceRecord::new(owner, class, ttl, rdata).with_cache_flush(flush)
}

fn labels_of(n: &Name) -> Vec<Vec<u8>> {
    n.get_labels().iter().map(|l| l.as_bytes().to_vec()).collect()
}

fn is_sub(a: &Name, b: &Name) -> bool {
    let (la, lb) = (labels_of(a), labels_of(b));
    la.len() > lb.len() && la[la.len() - lb.len()..] == lb[..]
}

fn same(a: &ResourceRecord, b: &ResourceRecord) -> bool {
    a == b && a.ttl == b.ttl && a.cache_flush == b.cache_flush
}

/// the statement of C13 evaluated on concrete data; returns the list of violated clauses
fn check_reply(
    recs: &[(bool, ResourceRecord<'static>)],
    questions: &[Question<'static>],
    id: u16,
    reply: Option<(Packet, bool)>,
) -> Vec<&'static str> {
    let mut fails = Vec::new();
    let matches = |r: &ResourceRecord, q: &Question| r.match_qtype(q.qtype) && r.match_qclass(q.qclass);
    let exact: Vec<&ResourceRecord> = recs
        .iter()
        .filter(|(auth, r)| *auth && questions.iter().any(|q| r.name == q.qname && matches(r, q)))
        .map(|(_, r)| r)
        .collect();
    match reply {
        None => {
            if !exact.is_empty() {
                fails.push("missing-reply");
            }
        }
        Some((p, uni)) => {
            if p.id() != id || !p.has_flags(simple_dns::PacketFlag::RESPONSE) {
                fails.push("header");
            }
            if uni != questions.iter().any(|q| q.unicast_response) {
                fails.push("unicast");
            }
            if p.answers.is_empty() {
                fails.push("empty-reply");
            }
            for a in &p.answers {
                let ok = recs.iter().any(|(auth, r)| {
                    *auth && same(a, r)
                        && questions.iter().any(|q| (r.name == q.qname || is_sub(&r.name, &q.qname)) && matches(r, q))
                });
                if !ok {
                    fails.push("answer-unsound");
                }
            }
            for r in &exact {
                // included as the record the store identifies it by (owner, class, RDATA)
                if !p.answers.iter().any(|a| a.name == r.name && a.class == r.class && a.rdata == r.rdata) {
                    fails.push("answer-missing");
                }
            }
            for ad in &p.additional_records {
                let ok = recs.iter().any(|(_, r)| {
                    same(ad, r)
                        && matches!(r.rdata, RData::A(_) | RData::AAAA(_))
                        && p.answers.iter().any(|a| match &a.rdata {
                            RData::SRV(s) => s.target == r.name,
                            _ => false,
                        })
                });
                if !ok {
                    fails.push("additional-unsound");
                }
            }
        }
    }
    fails
}

fn count(mgr: &ResourceRecordManager<'static>, name: &Name<'static>, f: DomainResourceFilter) -> usize {
    // the manager borrows for 'a: leak the borrow for the duration of the test
    let mgr: &'static ResourceRecordManager<'static> = unsafe { &*(mgr as *const _) };
    let name: &'static Name<'static> = unsafe { &*(name as *const _) };
    mgr.get_domain_resources(name, f).map(|g| g.count()).sum()
}

fn report(fails: Vec<&'static str>) {
    println!(
        "REPLAY-RESULT {{\"outcome\":\"ok\",\"fails\":[{}]}}",
        fails.iter().map(|s| format!("\"{}\"", s)).collect::<Vec<_>>().join(",")
    );
}

/// C15 filter evaluated on concrete data: after ingesting `packet`, the cached records reachable below `service` must be exactly
/// the packet's records owned by strict subdomains of `service` other than `own`
fn check_ingest(mgr: &ResourceRecordManager<'static>, recs: &[ResourceRecord<'static>], service: &Name<'static>, own: &Name<'static>) -> Vec<&'static str> {
    let mut fails = Vec::new();
    let mgr: &'static ResourceRecordManager<'static> = unsafe { &*(mgr as *const _) };
    for r in recs {
        let admissible = is_sub(&r.name, service) && r.name != *own;
        let name: &'static Name<'static> = Box::leak(Box::new(r.name.clone()));
        let found = mgr
            .get_domain_resources(name, DomainResourceFilter::all())
            .flatten()
            .any(|x| x == r);
        let found_exact = {
            // get_domain_resources(all) uses subtrie semantics; look the record up under its own name only
            found && mgr.get_domain_resources(name, DomainResourceFilter::cached()).flatten().any(|x| x == r && x.name == r.name)
        };
        if admissible && !found_exact { fails.push("lost"); }
        if !admissible && found_exact { fails.push("filter"); }
    }
    fails
}

/// C15 evaluated on concrete data: announce `info` under `full`, cross the wire in a compressed packet, discover it again
fn check_instance(info: crate::InstanceInformation, service: &Name<'static>, full: &Name<'static>, ttl: u32) -> Vec<&'static str> {
    let mut fails = Vec::new();
    let original = info.clone();
    let records = match info.into_records(full, ttl) {
        Ok(r) => r,
        Err(_) => return vec!["into-err"],
    };
    let count = |f: &dyn Fn(&RData) -> bool| records.iter().filter(|r| f(&r.rdata)).count();
    let v4 = original.ip_addresses.iter().filter(|i| i.is_ipv4()).count();
    let v6 = original.ip_addresses.len() - v4;
    if count(&|r| matches!(r, RData::A(_))) != v4 || count(&|r| matches!(r, RData::AAAA(_))) != v6
        || count(&|r| matches!(r, RData::SRV(_))) != original.ports.len() || count(&|r| matches!(r, RData::TXT(_))) != 1
        || records.len() != v4 + v6 + original.ports.len() + 1
    {
        fails.push("records");
    }
    if records.iter().any(|r| r.name != *full || r.ttl != ttl || r.class != CLASS::IN) {
        fails.push("records");
    }
    let mut p = Packet::new_reply(7);
    p.answers = records;
    let bytes = match p.build_bytes_vec_compressed() {
        Ok(b) => b,
        Err(_) => { fails.push("wire"); return fails; }
    };
    let parsed = match Packet::parse(&bytes) {
        Ok(p) => p,
        Err(_) => { fails.push("wire"); return fails; }
    };
    match crate::InstanceInformation::from_records(service, parsed.answers.iter()) {
        None => fails.push("discover"),
        Some(found) => {
            if found.ip_addresses != original.ip_addresses { fails.push("addresses"); }
            if found.ports != original.ports { fails.push("ports"); }
            if found.attributes != original.attributes { fails.push("attributes"); }
            if found.unescaped_instance_name() != original.unescaped_instance_name() { fails.push("name"); }
            if found != original { fails.push("instance"); }
        }
    }
    fails
}
