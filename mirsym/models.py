"""Models of core/alloc/std (and bitflags / radix_trie) callees.  This list is the engine's trusted base.
A callee with no model and no MIR is never guessed: Unsupported is raised."""
import re
import z3
from .values import *
from .mirparse import INT_W, SIGNED, split_top
from .program import head, strip_lifetimes, split_generic

_MODELS = []
USED = set()


def model(rx):
    cre = re.compile(rx)

    def deco(fn):
        _MODELS.append((cre, fn))
        return fn
    return deco


def dispatch(I, fr, callee, args):
    for cre, fn in _MODELS:
        m = cre.match(callee)
        if m:
            r = fn(I, fr, callee, m, args)
            if r is not NotImplemented:
                USED.add(fn.__name__)
                return r
    return NotImplemented


def named_const(I, text):
    if text.endswith('REPLACEMENT_CHARACTER'):
        return mk('char', 0xFFFD)
    if re.search(r'(?:^|::)char::MAX$|impl char>::MAX$', text):
        return mk('char', 0x10FFFF)
    m = re.match(r'^<(u8|u16|u32|u64|usize) as bitflags::Bits>::(EMPTY|ALL)$', text)
    if m:
        return mk(m.group(1), 0 if m.group(2) == 'EMPTY' else -1)
    m = re.match(r'^(?:core::num::<impl )?(u8|u16|u32|u64|usize|i32|i64)>?::(MAX|MIN)$', text)
    if m:
        ty = m.group(1)
        w = INT_W[ty]
        if ty in SIGNED:
            return mk(ty, (1 << (w - 1)) - 1 if m.group(2) == 'MAX' else -(1 << (w - 1)))
        return mk(ty, (1 << w) - 1 if m.group(2) == 'MAX' else 0)
    return None


def macro_assoc_const(I, self_head, cname):
    """associated consts of macro-generated impls (rr_wrapper! TYPE_CODE): read the literal from the
    macro invocation in the source copy"""
    if cname != 'TYPE_CODE':
        return None
    import os
    p = os.path.join(I.prog.src_root, I.prog.crate_dir, 'src', 'dns', 'rdata', 'mod.rs')
    if not os.path.exists(p):
        return None
    text = open(p).read()
    m = re.search(r'\b' + re.escape(self_head) + r'\s*:\s*\w+\s*=\s*(\d+)', text)
    if m:
        return mk('u16', int(m.group(1)))
    return None


# ------------------------------------------------------------------ helpers
def usize(n):
    return mk('usize', n)


def deref_val(I, v):
    while isinstance(v, Ref):
        v = I.load_ref(v)
    return v


def as_slice(I, v):
    """anything slice-like -> SliceRef"""
    if isinstance(v, SliceRef):
        return v
    if isinstance(v, Ref):
        inner = I.load_ref(v)
        if isinstance(inner, ArrBuf):
            return SliceRef(v, usize(0), inner.len)
        if isinstance(inner, (VecV, Agg)):
            return SliceRef(v, usize(0), usize(len(I.container_items(inner))),
                            isinstance(inner, VecV) and inner.is_string)
        if isinstance(inner, (SliceRef, Ref)):
            return as_slice(I, inner)
        if isinstance(inner, En) and inner.ty == 'Cow':
            return cow_slice(I, v)
        if isinstance(inner, BoxV):
            return as_slice(I, Ref(v.cell, v.path + (('box',),)))
    if isinstance(v, (VecV, Agg)):
        r = I.new_ref(v, 'tmpseq')
        return as_slice(I, r)
    raise Unsupported("as_slice %r" % (v,))


def cow_slice(I, cow_ref):
    """&Cow<[u8]> -> &[u8]"""
    cow = I.load_ref(cow_ref)
    if cow.var == 'Borrowed':
        return as_slice(I, cow.f[0])
    return as_slice(I, Ref(cow_ref.cell, cow_ref.path + (0,)))


def check_bounds_or_panic(I, cond_ok, msg):
    if not I.ctx.branch(cond_ok):
        raise PathEnd('panic', msg)


def ule(a, b):
    if a.concrete and b.concrete:
        return Sc(int(a.e <= b.e), 'bool')
    return sc_from(z3.ULE(a.z(), b.z()), 'bool')


def ult(a, b):
    if a.concrete and b.concrete:
        return Sc(int(a.e < b.e), 'bool')
    return sc_from(z3.ULT(a.z(), b.z()), 'bool')


def band(a, b):
    if a.concrete and b.concrete:
        return Sc(a.e & b.e, 'bool')
    return sc_from(z3.And(a.z(), b.z()), 'bool')


def range_bounds(I, s, rng):
    """(start, end) Sc for a Range*/usize index applied to slice s"""
    if isinstance(rng, Agg):
        if rng.ty == 'Range':
            return rng.f[0], rng.f[1]
        if rng.ty == 'RangeFrom':
            return rng.f[0], s.len
        if rng.ty == 'RangeTo':
            return usize(0), rng.f[0]
        if rng.ty == 'RangeFull':
            return usize(0), s.len
        if rng.ty == 'RangeInclusive':
            return rng.f[0], I.binop('Add', rng.f[1], usize(1))
    raise Unsupported("range %r" % (rng,))


def subslice(I, s, a, b):
    return SliceRef(s.base, I.binop('Add', s.start, a), I.binop('Sub', b, a), s.is_str)


# ------------------------------------------------------------------ slices
@model(r'^<(?:\[.*\]|Vec<.*>|str|String) as (?:(?:std|core)::ops::)?(?:Index|IndexMut)<(.*)>>::index(?:_mut)?$')
def m_index(I, fr, callee, m, args):
    s = as_slice(I, args[0])
    idx = args[1]
    if isinstance(idx, Sc):
        check_bounds_or_panic(I, ult(idx, s.len), 'index out of bounds')
        return Ref(s.base.cell, s.base.path + (('i', I.binop('Add', s.start, idx)),))
    a, b = range_bounds(I, s, idx)
    check_bounds_or_panic(I, band(ule(a, b), ule(b, s.len)), 'slice index out of range')
    if re.match(r'^<(?:str|String) as ', callee):
        # str slicing panics unless both ends fall on UTF-8 character boundaries
        items = I.seq_items(s)[0]
        for e in (a, b):
            inside = band(ult(usize(0), e), ult(e, s.len))
            if I.ctx.branch(inside):
                byte = I.select(items, I.binop('Add', s.start, e))
                check_bounds_or_panic(I, sc_from((byte.z() & 0xC0) != 0x80, 'bool'), 'byte index is not a char boundary')
    return subslice(I, s, a, b)


@model(r'^(?:(?:core|std|alloc)::)?slice::<impl \[.*\]>::get(?:_mut)?::<(.*)>$')
def m_get(I, fr, callee, m, args):
    s = as_slice(I, args[0])
    idx = args[1]
    if isinstance(idx, Sc):
        if I.ctx.branch(ult(idx, s.len)):
            return Some(Ref(s.base.cell, s.base.path + (('i', I.binop('Add', s.start, idx)),)))
        return NONE
    a, b = range_bounds(I, s, idx)
    if I.ctx.branch(band(ule(a, b), ule(b, s.len))):
        return Some(subslice(I, s, a, b))
    return NONE


@model(r'^(?:(?:core|std|alloc)::)?slice::<impl \[.*\]>::(len|is_empty)$|^(?:(?:core|std|alloc)::)?str::<impl str>::(len|is_empty)$|^(?:Vec::<.*>|String)::(len|is_empty)$')
def m_len(I, fr, callee, m, args):
    s = as_slice(I, args[0])
    which = m.group(1) or m.group(2) or m.group(3)
    if which == 'len':
        return s.len
    return I.binop('Eq', s.len, usize(0))


@model(r'^(?:(?:core|std|alloc)::)?slice::<impl \[.*\]>::(first|last)$')
def m_first_last(I, fr, callee, m, args):
    s = as_slice(I, args[0])
    if I.ctx.branch(I.binop('Eq', s.len, usize(0))):
        return NONE
    off = usize(0) if m.group(1) == 'first' else I.binop('Sub', s.len, usize(1))
    return Some(Ref(s.base.cell, s.base.path + (('i', I.binop('Add', s.start, off)),)))


@model(r'^<&\[.*\] as TryInto<\[.*; (\d+)\]>>::try_into$|^<\[.*; (\d+)\] as TryFrom<&\[.*\]>>::try_from$')
def m_try_into_array(I, fr, callee, m, args):
    n = int(m.group(1) or m.group(2))
    s = as_slice(I, args[0])
    if I.ctx.branch(I.binop('Eq', s.len, usize(n))):
        items = I.seq_items(s)[0]
        vals = [I.select(items, I.binop('Add', s.start, usize(k))) for k in range(n)]
        return Ok(Agg('array', vals))
    return Err(Agg('TryFromSliceError', (UNIT,)))


@model(r'^(?:(?:core|std|alloc)::)?slice::<impl \[.*\]>::to_vec$|^<\[.*\] as ToOwned>::to_owned$|^<&\[u8\] as Into<Vec<u8>>>::into$|^<Vec<.*> as From<&\[.*\]>>::from$|^<str as ToOwned>::to_owned$|^<String as From<&str>>::from$|^<&str as Into<String>>::into$|^<str as ToString>::to_string$|^(?:(?:core|std|alloc)::)?str::<impl str>::to_owned$|^<&str as ToString>::to_string$')
def m_to_vec(I, fr, callee, m, args):
    s = as_slice(I, args[0])
    xs = I.seq_list(s)
    is_str = 'str' in callee or 'String' in callee
    return VecV([clone_value(I, x) for x in xs], is_str)


@model(r'^(?:(?:core|std|alloc)::)?slice::<impl \[.*\]>::copy_from_slice$')
def m_copy_from_slice(I, fr, callee, m, args):
    dst = as_slice(I, args[0])
    src = as_slice(I, args[1])
    if not I.ctx.branch(I.binop('Eq', dst.len, src.len)):
        raise PathEnd('panic', 'copy_from_slice length mismatch')
    xs = I.seq_list(src)
    c = I.load_ref(dst.base)
    items = list(I.container_items(c))
    st = I.ctx.concretize(dst.start)
    items[st:st + len(xs)] = xs
    I.store_ref(dst.base, I.with_items(c, items))
    return UNIT


@model(r'^(?:(?:core|std|alloc)::)?slice::(?:ascii::)?<impl \[u8\]>::eq_ignore_ascii_case$')
def m_eq_ignore_ascii_case(I, fr, callee, m, args):
    a, b = as_slice(I, args[0]), as_slice(I, args[1])
    if not I.ctx.branch(I.binop('Eq', a.len, b.len)):
        return FALSE
    xs, ys = I.seq_list(a), I.seq_list(b)

    def lower(x):
        if x.concrete:
            return mk('u8', x.e + 32 if 65 <= x.e <= 90 else x.e)
        e = x.z()
        return sc_from(z3.If(z3.And(z3.UGE(e, 65), z3.ULE(e, 90)), e + 32, e), 'u8')
    conj = [I.value_eq(lower(x), lower(y)) for x, y in zip(xs, ys)]
    return sc_from(z3.And([z3.BoolVal(True)] + conj), 'bool')


@model(r'^(?:(?:core|std|alloc)::)?(?:str::<impl str>|slice::(?:ascii::)?<impl \[u8\]>)::(to_ascii_lowercase|to_ascii_uppercase)$|^String::(to_ascii_lowercase|to_ascii_uppercase)$')
def m_to_ascii_case(I, fr, callee, m, args):
    """byte-wise ASCII case mapping (non-ASCII bytes unchanged) -> owned String / Vec<u8>"""
    op = m.group(1) or m.group(2)
    s_ = as_slice(I, args[0])
    lo, hi, d = (65, 90, 32) if op == 'to_ascii_lowercase' else (97, 122, -32)
    out = []
    for x in I.seq_list(s_):
        if x.concrete:
            out.append(mk('u8', x.e + d if lo <= x.e <= hi else x.e))
        else:
            e = x.z()
            out.append(sc_from(z3.If(z3.And(z3.UGE(e, lo), z3.ULE(e, hi)), e + d, e), 'u8'))
    return VecV(out, 'str' in callee or 'String' in callee)


@model(r'^(?:(?:core|std|alloc)::)?str::<impl str>::as_bytes$|^String::as_bytes$|^<String as Deref>::deref$|^String::as_str$|^<Vec<.*> as Deref>::deref$|^<Vec<.*> as DerefMut>::deref_mut$|^Vec::<.*>::as_slice$|^<Vec<.*> as AsRef<\[.*\]>>::as_ref$|^<String as AsRef<str>>::as_ref$|^<\[.*\] as AsRef<\[.*\]>>::as_ref$|^<String as Borrow<str>>::borrow$|^<str as AsRef<\[u8\]>>::as_ref$|^Vec::<.*>::as_mut_slice$')
def m_as_slice(I, fr, callee, m, args):
    s = as_slice(I, args[0])
    if 'as_bytes' in callee or 'AsRef<[u8]>' in callee:
        return SliceRef(s.base, s.start, s.len, False)
    if callee.startswith(('<String', 'String')):
        return SliceRef(s.base, s.start, s.len, True)
    return s


# ------------------------------------------------------------------ integers
@model(r'^(?:(?:core|std)::)?num::<impl (u8|u16|u32|u64|u128|i16|i32|i64|usize)>::from_(be|le)_bytes$')
def m_from_bytes(I, fr, callee, m, args):
    ty, order = m.group(1), m.group(2)
    bs = list(args[0].f)
    if order == 'le':
        bs = bs[::-1]
    if all(b.concrete for b in bs):
        v = 0
        for b in bs:
            v = (v << 8) | b.e
        return mk(ty, v)
    e = z3.Concat(*[b.z() for b in bs]) if len(bs) > 1 else bs[0].z()
    return sc_from(e, ty)


@model(r'^(?:(?:core|std)::)?num::<impl (u8|u16|u32|u64|u128|i16|i32|i64|usize)>::to_(be|le)_bytes$')
def m_to_bytes(I, fr, callee, m, args):
    ty, order = m.group(1), m.group(2)
    v = args[0]
    n = INT_W[ty] // 8
    out = []
    for k in range(n):
        hi = INT_W[ty] - 8 * k - 1
        if v.concrete:
            out.append(mk('u8', (v.e >> (hi - 7)) & 0xFF))
        else:
            out.append(sc_from(z3.Extract(hi, hi - 7, v.e), 'u8'))
    if order == 'le':
        out = out[::-1]
    return Agg('array', out)


@model(r'^(?:(?:core|std)::)?num::<impl u8>::(to_be|from_be|to_le|from_le)$')
def m_u8_be(I, fr, callee, m, args):
    return args[0]


@model(r'^(?:(?:core|std)::)?num::<impl (u16|u32|u64|usize)>::trailing_zeros$')
def m_trailing_zeros(I, fr, callee, m, args):
    v = args[0]
    if not v.concrete:
        raise Unsupported("trailing_zeros of symbolic value")
    w = INT_W[m.group(1)]
    n = 0
    while n < w and not (v.e >> n) & 1:
        n += 1
    return mk('u32', n)


@model(r'^(?:(?:core|std)::)?num::<impl (\w+)>::(saturating_sub|saturating_add|wrapping_add|wrapping_sub|min|max|checked_add|checked_sub)$|^<(\w+) as Ord>::(min|max)$|^std::cmp::(min|max)::<(\w+)>$')
def m_int_misc(I, fr, callee, m, args):
    op = m.group(2) or m.group(4) or m.group(5)
    a, b = args[0], args[1]
    if op == 'saturating_sub':
        if I.ctx.branch(ult(a, b)):
            return mk(a.ty, 0)
        return I.binop('Sub', a, b)
    if op == 'saturating_add':
        ov = I.overflow('Add', a, b)
        if I.ctx.branch(ov):
            return mk(a.ty, -1)
        return I.binop('Add', a, b)
    if op == 'wrapping_add':
        return I.binop('Add', a, b)
    if op == 'wrapping_sub':
        return I.binop('Sub', a, b)
    if op in ('min', 'max'):
        lt = I.binop('Lt', a, b)
        if I.ctx.branch(lt):
            return a if op == 'min' else b
        return b if op == 'min' else a
    if op in ('checked_add', 'checked_sub'):
        base = 'Add' if op == 'checked_add' else 'Sub'
        if I.ctx.branch(I.overflow(base, a, b)):
            return NONE
        return Some(I.binop(base, a, b))
    raise Unsupported(op)


@model(r'^(?:(?:core|std)::)?num::<impl u8>::is_ascii_(alphanumeric|digit|alphabetic|uppercase|lowercase)$|^core::char::methods::<impl char>::is_ascii_(alphanumeric|digit)$')
def m_is_ascii(I, fr, callee, m, args):
    v = deref_val(I, args[0])
    kind = m.group(1) or m.group(2)

    def rng(lo, hi):
        if v.concrete:
            return z3.BoolVal(lo <= v.e <= hi)
        e = v.z()
        w = e.size()
        return z3.And(z3.UGE(e, z3.BitVecVal(lo, w)), z3.ULE(e, z3.BitVecVal(hi, w)))
    d, u, l = rng(48, 57), rng(65, 90), rng(97, 122)
    r = {'alphanumeric': z3.Or(d, u, l), 'digit': d, 'alphabetic': z3.Or(u, l), 'uppercase': u, 'lowercase': l}[kind]
    return sc_from(r, 'bool')


@model(r'^<(u8|u16|u32|u64|u128|usize|i32|i64|bool|char) as (?:From|Into)<(u8|u16|u32|u64|u128|usize|i32|i64|bool|char)>>::(from|into)$')
def m_int_from(I, fr, callee, m, args):
    a, b, which = m.group(1), m.group(2), m.group(3)
    to = a if which == 'from' else b
    return I.cast_int(args[0], to)


@model(r'^<(u8|u16|u32|u64|usize) as TryFrom<(\w+)>>::try_from$|^<(\w+) as TryInto<(u8|u16|u32|u64|usize)>>::try_into$')
def m_int_try_from(I, fr, callee, m, args):
    to = m.group(1) or m.group(4)
    v = args[0]
    w = INT_W[to]
    if INT_W[v.ty] <= w and v.ty not in SIGNED:
        return Ok(I.cast_int(v, to))
    fits = ule(v, mk(v.ty, (1 << w) - 1)) if v.ty not in SIGNED else None
    if fits is None:
        raise Unsupported("signed try_from")
    if I.ctx.branch(fits):
        return Ok(I.cast_int(v, to))
    return Err(Agg('TryFromIntError', (UNIT,)))


@model(r'^<(u8|u16|u32|u64|u128|usize|i32|i64|isize|bool|char) as (?:PartialEq|PartialOrd|Ord)(?:<\w+>)?>::(eq|ne|lt|le|gt|ge|cmp|partial_cmp)$|^<&(\w+) as PartialEq(?:<&\w+>)?>::(eq|ne)$')
def m_int_cmp(I, fr, callee, m, args):
    op = m.group(2) or m.group(4)
    a, b = deref_val(I, args[0]), deref_val(I, args[1])
    if not isinstance(a, Sc):
        return NotImplemented
    if op in ('cmp', 'partial_cmp'):
        r = I.binop('Cmp', a, b)
        return Some(r) if op == 'partial_cmp' else r
    return I.binop({'eq': 'Eq', 'ne': 'Ne', 'lt': 'Lt', 'le': 'Le', 'gt': 'Gt', 'ge': 'Ge'}[op], a, b)


@model(r'^std::mem::replace::<.*>$|^std::mem::take::<.*>$|^std::mem::swap::<.*>$')
def m_mem_replace(I, fr, callee, m, args):
    if 'replace' in callee:
        old = I.load_ref(args[0])
        I.store_ref(args[0], args[1])
        return old
    if 'swap' in callee:
        a, b = I.load_ref(args[0]), I.load_ref(args[1])
        I.store_ref(args[0], b)
        I.store_ref(args[1], a)
        return UNIT
    old = I.load_ref(args[0])
    I.store_ref(args[0], default_like(old))
    return old


def default_like(v):
    if isinstance(v, VecV):
        return VecV((), v.is_string)
    if isinstance(v, Sc):
        return mk(v.ty, 0)
    if isinstance(v, MapV):
        return MapV(v.kind)
    if isinstance(v, En) and v.ty == 'Option':
        return NONE
    raise Unsupported("default of %r" % (v,))


# ------------------------------------------------------------------ Option / Result / Try
@model(r'^<(?:std::result::)?Result<.*> as Try>::branch$|^<Option<.*> as Try>::branch$')
def m_try_branch(I, fr, callee, m, args):
    v = args[0]
    if v.var in ('Ok', 'Some'):
        return En('ControlFlow', 'Continue', (v.f[0],))
    if v.ty == 'Option':
        return En('ControlFlow', 'Break', (NONE,))
    return En('ControlFlow', 'Break', (En('Result', 'Err', (v.f[0],)),))


@model(r'^<(?:std::result::)?Result<(.*)> as FromResidual<(?:std::result::)?Result<Infallible, (.*)>>>::from_residual$')
def m_from_residual(I, fr, callee, m, args):
    e = args[0].f[0]
    to_args = split_top(m.group(1))
    to_err = head(to_args[-1])
    frm = head(m.group(2))
    if to_err != frm:
        e = I.do_call(fr, '<%s as From<%s>>::from' % (to_args[-1].strip(), m.group(2).strip()), [e])
    return Err(e)


@model(r'^<Option<.*> as FromResidual<Option<Infallible>>>::from_residual$')
def m_from_residual_opt(I, fr, callee, m, args):
    return NONE


@model(r'^<SimpleDnsError as From<(.*)>>::from$')
def m_err_from(I, fr, callee, m, args):
    # the crate's own From impls exist in MIR; this only routes std-typed sources whose MIR ignores the value
    return NotImplemented


@model(r'^Option::<.*>::(ok_or|ok_or_else|map|map_or|and_then|unwrap_or|unwrap_or_default|unwrap|expect|is_some|is_none|is_some_and|as_ref|as_mut|cloned|copied|take|unwrap_or_else|filter|or_insert|or|ok|is_none_or)(?:::<.*>)?$')
def m_option(I, fr, callee, m, args):
    op = m.group(1)
    o = args[0]
    if op in ('as_ref', 'as_mut', 'take', 'is_some', 'is_none', 'is_some_and') and isinstance(o, Ref):
        ref = o
        o = I.load_ref(ref)
        if op in ('as_ref', 'as_mut'):
            if o.var == 'None':
                return NONE
            return Some(Ref(ref.cell, ref.path + (0,)))
        if op == 'take':
            I.store_ref(ref, NONE)
            return o
    some = o.var == 'Some'
    if op == 'ok_or':
        return Ok(o.f[0]) if some else Err(args[1])
    if op == 'ok_or_else':
        return Ok(o.f[0]) if some else Err(I.call_closure(args[1], []))
    if op == 'map':
        return Some(I.call_closure(args[1], [o.f[0]])) if some else NONE
    if op == 'map_or':
        return I.call_closure(args[2], [o.f[0]]) if some else args[1]
    if op == 'and_then':
        return I.call_closure(args[1], [o.f[0]]) if some else NONE
    if op == 'filter':
        if some and I.ctx.branch(I.call_closure(args[1], [I.new_ref(o.f[0])])):
            return o
        return NONE
    if op == 'unwrap_or':
        return o.f[0] if some else args[1]
    if op == 'unwrap_or_else':
        return o.f[0] if some else I.call_closure(args[1], [])
    if op in ('unwrap', 'expect'):
        if not some:
            raise PathEnd('panic', 'Option::unwrap on None')
        return o.f[0]
    if op == 'is_some':
        return TRUE if some else FALSE
    if op == 'is_none':
        return FALSE if some else TRUE
    if op == 'is_some_and':
        return I.call_closure(args[1], [o.f[0]]) if some else FALSE
    if op == 'is_none_or':
        return I.call_closure(args[1], [o.f[0]]) if some else TRUE
    if op in ('cloned', 'copied'):
        return Some(clone_value(I, deref_val(I, o.f[0]))) if some else NONE
    if op == 'or':
        return o if some else args[1]
    if op == 'ok':
        return o
    raise Unsupported("Option::" + op)


@model(r'^(?:std::result::)?Result::<.*>::(map|map_err|ok|err|unwrap|expect|is_ok|is_err|and_then|unwrap_or|unwrap_or_default|unwrap_or_else|or_else)(?:::<.*>)?$')
def m_result(I, fr, callee, m, args):
    op = m.group(1)
    r = args[0]
    if isinstance(r, Ref):
        r = I.load_ref(r)
    ok = r.var == 'Ok'
    if op == 'map':
        return Ok(I.call_closure(args[1], [r.f[0]])) if ok else r
    if op == 'map_err':
        return r if ok else Err(I.call_closure(args[1], [r.f[0]]))
    if op == 'ok':
        return Some(r.f[0]) if ok else NONE
    if op == 'err':
        return NONE if ok else Some(r.f[0])
    if op in ('unwrap', 'expect'):
        if not ok:
            raise PathEnd('panic', 'Result::unwrap on Err')
        return r.f[0]
    if op == 'is_ok':
        return TRUE if ok else FALSE
    if op == 'is_err':
        return FALSE if ok else TRUE
    if op == 'and_then':
        return I.call_closure(args[1], [r.f[0]]) if ok else r
    if op == 'unwrap_or':
        return r.f[0] if ok else args[1]
    if op == 'unwrap_or_else':
        return r.f[0] if ok else I.call_closure(args[1], [r.f[0]])
    if op == 'or_else':
        return r if ok else I.call_closure(args[1], [r.f[0]])
    raise Unsupported("Result::" + op)


# ------------------------------------------------------------------ clone / drop / misc
def clone_value(I, v):
    """values are immutable: clone is identity except that Cow::Borrowed stays borrowed (as in std)"""
    return v


@model(r'^<(?:u8|u16|u32|u64|u128|usize|i32|bool|char|Vec<.*>|String|Cow<.*>|Option<.*>|&.*|\[.*\]|(?:std::net::)?Ipv[46]Addr|(?:std::net::)?IpAddr|BTreeMap<.*>|HashMap<.*>|HashSet<.*>|Box<.*>|\(.*\)) as Clone>::clone$')
def m_clone(I, fr, callee, m, args):
    v = I.load_ref(args[0])
    return clone_generic(I, callee, v)


def clone_generic(I, callee, v):
    # element types from the crate that implement Clone manually would need their MIR; all crate Clone
    # impls are derived (field-wise), so structural copy is exact.
    return v


@model(r'^std::mem::drop::<.*>$|^std::mem::forget::<.*>$|^core::mem::drop::<.*>$')
def m_drop(I, fr, callee, m, args):
    return UNIT


@model(r'^<T as Into<T>>::into$|^<(.+) as Into<\1>>::into$|^<(.+) as From<\2>>::from$')
def m_into_id(I, fr, callee, m, args):
    return args[0]


@model(r'^<.* as Into<.*>>::into$')
def m_into_generic(I, fr, callee, m, args):
    """<X as Into<Y>>::into where the static X is a generic parameter (T): dispatch on the runtime value"""
    mm = re.match(r'^<(.*) as Into<(.*)>>::into$', callee)
    src, dst = mm.group(1), mm.group(2)
    v = args[0]
    dh = head(dst)
    if dh == 'Cow':
        if isinstance(v, En) and v.ty == 'Cow':
            return v
        if isinstance(v, VecV):
            return En('Cow', 'Owned', (v,))
        if isinstance(v, (SliceRef, Ref)):
            return En('Cow', 'Borrowed', (as_slice(I, v),))
    if dh in ('Vec', 'String'):
        if isinstance(v, VecV):
            return v
        if isinstance(v, En) and v.ty == 'Cow':
            return cow_into_owned(I, v)
        if isinstance(v, (SliceRef, Ref)):
            return VecV(I.seq_list(as_slice(I, v)), dh == 'String')
    return NotImplemented


@model(r'^<Cow<.*> as From<(.*)>>::from$')
def m_cow_from(I, fr, callee, m, args):
    v = args[0]
    if isinstance(v, VecV):
        return En('Cow', 'Owned', (v,))
    return En('Cow', 'Borrowed', (as_slice(I, v),))


def cow_into_owned(I, cow):
    if cow.var == 'Owned':
        return cow.f[0]
    s = as_slice(I, cow.f[0])
    return VecV(I.seq_list(s), s.is_str)


@model(r'^Cow::<.*>::into_owned$|^<Cow<.*> as Into<Vec<u8>>>::into$|^<Vec<u8> as From<Cow<.*>>>::from$')
def m_cow_into_owned(I, fr, callee, m, args):
    return cow_into_owned(I, args[0])


@model(r'^<Cow<.*> as Deref>::deref$|^<Cow<.*> as AsRef<.*>>::as_ref$|^<Cow<.*> as Borrow<.*>>::borrow$')
def m_cow_deref(I, fr, callee, m, args):
    return cow_slice(I, args[0])


@model(r'^Cow::<.*>::(is_borrowed|is_owned)$')
def m_cow_is(I, fr, callee, m, args):
    c = I.load_ref(args[0])
    return TRUE if (c.var == 'Borrowed') == (m.group(1) == 'is_borrowed') else FALSE


@model(r'^<Cow<.*> as PartialEq(?:<.*>)?>::(eq|ne)$|^<(?:\[.*\]|&\[.*\]|Vec<.*>|str|&str|String|&String) as PartialEq(?:<.*>)?>::(eq|ne)$')
def m_seq_eq(I, fr, callee, m, args):
    op = m.group(1) or m.group(2)
    a, b = deref_seq(I, args[0]), deref_seq(I, args[1])
    e = I.seq_eq(a, b)
    return sc_from(e if op == 'eq' else z3.Not(e), 'bool')


def deref_seq(I, v):
    while isinstance(v, Ref):
        inner = I.load_ref(v)
        if isinstance(inner, (VecV, Agg)):
            return as_slice(I, v)
        if isinstance(inner, En) and inner.ty == 'Cow':
            return cow_slice(I, v)
        v = inner
    if isinstance(v, En) and v.ty == 'Cow':
        return as_slice(I, v.f[0]) if v.var == 'Borrowed' else v.f[0]
    return v


def eq_dispatch(I, x, y):
    """equality of two element values of possibly crate-defined type -> z3 Bool"""
    xv, yv = deref_val(I, x), deref_val(I, y)
    ty = None
    if isinstance(xv, Agg) and xv.ty in I.prog.structs:
        ty = xv.ty
    elif isinstance(xv, En) and (xv.ty, 'eq') in I.prog.methods:
        ty = xv.ty
    if ty is not None and (ty, 'eq') in I.prog.methods:
        cands = [f for t, f in I.prog.methods[(ty, 'eq')] if t and t.startswith('PartialEq')]
        if len(cands) == 1:
            rx = x if isinstance(x, Ref) else I.new_ref(xv, 'eqa')
            ry = y if isinstance(y, Ref) else I.new_ref(yv, 'eqb')
            r = I.call_function(cands[0], [rx, ry], {})
            return zbool(r)
    return I.value_eq(xv, yv)


def map_eq(I, a, b):
    if a.kind.startswith('BTree') and b.kind.startswith('BTree'):
        if len(a.entries) != len(b.entries):
            return z3.BoolVal(False)
        return z3.And([z3.BoolVal(True)] + [z3.And(eq_dispatch_deep(I, ka, kb), eq_dispatch_deep(I, va, vb))
                                             for (ka, va), (kb, vb) in zip(a.entries, b.entries)])
    raise Unsupported("hash map equality")


@model(r'^<(?:Option|std::result::Result|BTreeMap|BTreeSet)<.*> as PartialEq>::(eq|ne)$|^<\(.*\) as PartialEq>::(eq|ne)$')
def m_opt_eq(I, fr, callee, m, args):
    op = m.group(1) or m.group(2)
    e = eq_dispatch_deep(I, I.load_ref(args[0]), I.load_ref(args[1]))
    return sc_from(e if op == 'eq' else z3.Not(e), 'bool')


def eq_dispatch_deep(I, a, b):
    if isinstance(a, En) and isinstance(b, En) and a.ty in ('Option', 'Result'):
        if a.var != b.var:
            return z3.BoolVal(False)
        return z3.And([z3.BoolVal(True)] + [eq_dispatch_deep(I, x, y) for x, y in zip(a.f, b.f)])
    if isinstance(a, Agg) and a.ty == 'tuple':
        return z3.And([z3.BoolVal(True)] + [eq_dispatch_deep(I, x, y) for x, y in zip(a.f, b.f)])
    if isinstance(a, (VecV, SliceRef)):
        return I.seq_eq(a, b)
    if isinstance(a, MapV) and isinstance(b, MapV):
        return map_eq(I, a, b)
    return eq_dispatch(I, a, b)


from . import models_coll   # noqa: E402,F401  (collections, iterators, io, fmt, hash)
from . import models_io   # noqa
from . import models_fmt  # noqa
from . import models_mdns  # noqa


@model(r'^<&(.*) as PartialEq(?:<&(.*)>)?>::(eq|ne)$')
def m_ref_eq(I, fr, callee, m, args):
    """impl PartialEq<&B> for &A: compare the referents with A's PartialEq"""
    a, b = I.load_ref(args[0]), I.load_ref(args[1])
    inner = '<%s as PartialEq>::eq' % m.group(1)
    r = I.do_call(fr, inner, [a, b])
    if m.group(3) == 'ne':
        return Sc(1 - r.e, 'bool') if r.concrete else sc_from(z3.Not(r.z()), 'bool')
    return r


@model(r'^<(.*) as PartialEq(<.*>)?>::ne$')
def m_default_ne(I, fr, callee, m, args):
    """PartialEq::ne default method: !self.eq(other) (types that override ne do not occur in the crates)"""
    r = I.do_call(fr, '<%s as PartialEq%s>::eq' % (m.group(1), m.group(2) or ''), args)
    return Sc(1 - r.e, 'bool') if r.concrete else sc_from(z3.Not(r.z()), 'bool')
