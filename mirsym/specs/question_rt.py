"""Question round trip (C02.question, C18 codes on the wire): for every QTYPE the library accepts (41 types + NULL + IXFR, AXFR, MAILB,
MAILA, ANY), every QCLASS (5 classes + ANY), the unicast-response bit and names of 3 shapes with symbolic label bytes:
write_to bytes == RFC 1035 4.1.2 layout (QNAME, QTYPE code, QCLASS | 0x8000 for unicast) and parse(reference bytes) == the question."""
import z3
from ..values import *
from .. import explore as X
from . import valuegen as VG
from .valuegen import S, be_bytes
from .rr_roundtrip import deep_eq, fn

CRATE = 'simple-dns'
QSPECIAL = [('IXFR', 251), ('AXFR', 252), ('MAILB', 253), ('MAILA', 254), ('ANY', 255)]
QCLASSES = [('IN', 1), ('CS', 2), ('CH', 3), ('HS', 4), ('NONE', 254), (None, 255)]


def tasks(tier, params):
    return [('shape%d' % i, {'shape': sh}) for i, sh in enumerate([(), (1,), (2, 1)])]


def run_task(prog, tid, params, tier):
    f_write = fn(prog, 'Question', 'write_to')
    f_parse = fn(prog, 'Question', 'parse')
    f_len = fn(prog, 'Question', 'len')
    qtypes = [(t.name, t.code) for t in S.TYPES] + [('NULL', 10)]
    stats = {}
    okp = [0]
    holder = {}

    def run(I):
        g = VG.Gen(prog, I.ctx)
        name, nwire = g.name(params['shape'], 'q')
        sel = g.fresh('u8', 'tsel')
        n = len(qtypes) + len(QSPECIAL)
        I.ctx.assume(z3.ULT(sel.z(), n))
        k = I.ctx.decide([sel.z() == i for i in range(n)])
        if k < len(qtypes):
            qt, code = En('QTYPE', 'TYPE', (En('TYPE', qtypes[k][0]),)), qtypes[k][1]
        else:
            qt, code = En('QTYPE', QSPECIAL[k - len(qtypes)][0]), QSPECIAL[k - len(qtypes)][1]
        csel = g.fresh('u8', 'csel')
        I.ctx.assume(z3.ULT(csel.z(), 6))
        c = I.ctx.decide([csel.z() == i for i in range(6)])
        qc = En('QCLASS', 'ANY') if QCLASSES[c][0] is None else En('QCLASS', 'CLASS', (En('CLASS', QCLASSES[c][0]),))
        uni = g.fresh('bool', 'uni')
        q = g.struct('Question', qname=name, qtype=qt, qclass=qc, unicast_response=uni)
        cls = sc_from(z3.If(uni.z(), z3.BitVecVal(QCLASSES[c][1] | 0x8000, 16), z3.BitVecVal(QCLASSES[c][1], 16)), 'u16')
        expected = nwire + be_bytes(mk('u16', code)) + be_bytes(cls)
        holder['exp'] = expected
        out = Cell(VecV(()), 'out')
        qref = I.new_ref(q, 'q')
        w = I.call_function(f_write, [qref, Ref(out)], {'T': 'Vec<u8>'})
        ln = I.call_function(f_len, [qref], {})
        pos = Cell(mk('usize', 0), 'pos')
        p = I.call_function(f_parse, [X.byte_buffer(I, expected, 'wire'), Ref(pos)], {})
        return q, w, list(out.v.items), ln, p, pos.v, expected

    def on_path(res):
        def viol(role, what):
            m = res.ctx.model()
            return {'status': 'violation', 'role': role, 'detail': 'question: ' + what,
                    'cex': {'entry': 'question_rt', 'bytes': X.model_bytes(m, holder.get('exp', [])), 'pos': 0, 'expect': {'any_failure': True}}}
        if res.kind == 'panic':
            return viol('panic', 'panic: ' + res.msg)
        if res.kind != 'return':
            return None
        q, w, written, ln, p, pos, expected = res.value
        if w.var != 'Ok' or len(written) != len(expected) or res.ctx.check(z3.Or([a.z() != b.z() for a, b in zip(written, expected)])):
            return viol('bytes', 'written bytes differ from QNAME / QTYPE / QCLASS|unicast layout')
        if res.ctx.check(ln.z() != len(expected)):
            return viol('len', 'len() differs from the bytes written')
        if p.var != 'Ok':
            return viol('parse', 'the RFC encoding of a supported question is rejected')
        if res.ctx.check(z3.Or(pos.z() != len(expected), z3.Not(deep_eq(res.interp, p.f[0], q)))):
            return viol('fields', 'parsed question differs from the original')
        okp[0] += 1
        return None
    v = X.explore(prog, run, on_path, loop_bound=100, stats=stats, timeout_ms=60000)
    out = {'paths': stats.get('paths', 0), 'queries': stats.get('queries', 0), 'solver_s': stats.get('solver_s', 0.0),
           'outcomes': stats.get('outcomes', {}), 'functions': stats.get('functions', set()), 'covers': {'roundtrips': okp[0]},
           'covers_witnessed': 1 if okp[0] else 0}
    if v is not None:
        out.update(v)
    elif not okp[0]:
        out['status'] = 'inconclusive'
        out['detail'] = 'vacuous'
    return out
