"""Translator validation (decides no property): the mirsym interpreter and its std models are run CONCRETELY on the repository's own
sample records (simple-dns/samples/zonefile/*.sample) and on truncations of them, and the results (accept / reject / panic, cursor,
type code, len(), TTL, re-serialised bytes) are compared with the NATIVE results of the same functions on the current tree.
A mismatch means the engine or a model is wrong: it is reported as INCONCLUSIVE for the property that hosts this obligation."""
import glob, os
from ..values import *
from .. import explore as X
from .rr_roundtrip import fn

CRATE = 'simple-dns'


def tasks(tier, params):
    return [('samples', {})]


def run_task(prog, tid, params, tier):
    from .. import runner
    f_parse = fn(prog, 'ResourceRecord', 'parse')
    f_write = fn(prog, 'ResourceRecord', 'write_to')
    f_len = fn(prog, 'ResourceRecord', 'len')
    f_tc = [f for t, f in prog.methods[('RData', 'type_code')] if t is None][0]
    f_code = [f for t, f in prog.methods[('u16', 'from')] if (t or '') == 'From<TYPE>'][0]
    files = sorted(glob.glob(os.path.join(prog.src_root, 'simple-dns', 'samples', 'zonefile', '*.sample*')))
    cases = []
    for f in files:
        b = open(f, 'rb').read()
        cases.append(b)
        if len(b) > 14:
            cases.append(b[:len(b) - 1])          # truncated by one byte
            cases.append(b[:len(b) // 2])
    mine = []
    stats = {}
    for b in cases:
        out = {}

        def run(I):
            bs = [mk('u8', x) for x in b]
            pos = Cell(mk('usize', 0), 'pos')
            r = I.call_function(f_parse, [X.byte_buffer(I, bs), Ref(pos)], {})
            if r.var != 'Ok':
                return 'err'
            rr = r.f[0]
            ref = I.new_ref(rr, 'rr')
            sink = Cell(VecV(()), 'sink')
            w = I.call_function(f_write, [ref, Ref(sink)], {'T': 'Vec<u8>'})
            ln = I.call_function(f_len, [ref], {})
            tc = I.call_function(f_code, [I.call_function(f_tc, [Ref(ref.cell, (3,))], {})], {})
            return 'ok:%d:%d:%d:%d:%s:%s' % (pos.v.e, tc.e, ln.e, rr.f[2].e, 'true' if w.var == 'Ok' else 'false',
                                             ''.join('%02x' % x.e for x in sink.v.items))

        def on_path(res):
            out['r'] = 'panic' if res.kind == 'panic' else (res.value if res.kind == 'return' else res.kind)
            return None
        X.explore(prog, run, on_path, loop_bound=300, stats=stats)
        mine.append(out.get('r'))
    native = runner.native_run({'entry': 'batch_rr', 'cases': ','.join(c.hex() for c in cases)})
    res = {'paths': stats.get('paths', 0), 'queries': stats.get('queries', 0), 'solver_s': stats.get('solver_s', 0.0),
           'outcomes': stats.get('outcomes', {}), 'functions': stats.get('functions', set()),
           'covers': {'cases': len(cases)}, 'covers_witnessed': 1, 'traces_validated': 0}
    theirs = (native or {}).get('results')
    if not theirs or len(theirs) != len(mine):
        res['status'] = 'inconclusive'
        res['detail'] = 'native batch did not run: %r' % (native,)
        return res
    bad = [(c.hex()[:40], m, t) for c, m, t in zip(cases, mine, theirs) if m != t]
    res['traces_validated'] = len(cases) - len(bad)
    if bad:
        res['status'] = 'inconclusive'
        res['detail'] = 'translator validation mismatch (engine/model defect): %r' % (bad[:3],)
    return res
