"""Record framing on parse (C05): for a message  header | record1 | record2  where record1 has a concrete TYPE (one task
per type) and a concrete RDLENGTH (0..K, enumerated inside the task) but fully symbolic RDATA bytes / class / TTLs, and
record2 is an A record with symbolic address at the position an RFC 1035 envelope walker computes:
  if Packet::parse succeeds, it returns exactly two answers, the second one is the A record found at the walker's
  position (owner, class, TTL, cache-flush bit, address), and record1 carries the TYPE / class / TTL of its envelope;
  a message whose RDLENGTH or counts run past the end is rejected.
The typed content of record1 may be shorter or longer than RDLENGTH - the following entry must never be read from
inside record1."""
import z3
from ..values import *
from .. import explore as X
from .valuegen import S, be_bytes
from . import valuegen as VG

from .packet_bytes import name_contract_stub

CRATE = 'simple-dns'


def rdata_name_stub(I, fr, callee, args):
    """names INSIDE RDATA are abstracted by the Name::parse contract (C06.contract); owner names are parsed for real"""
    caller = fr.fn.name if fr is not None else ''
    if 'resource_record' in caller or 'question' in caller:
        return NotImplemented
    return name_contract_stub(I, fr, callee, args)


HOOKS = {r'^<(?:\w+::)*Name as WireFormat>::parse$': rdata_name_stub}


def tasks(tier, params):
    if params.get('alloc_only'):
        return [('alloc3.' + name, {'code': code, 'K': 0, 'alloc3': rd})
                for name, code, rd in (('TXT', 16, [0]), ('NSEC', 47, [0]), ('SVCB', 64, [0, 0, 0]), ('HTTPS', 65, [0, 0, 0]))]
    K = 9 if tier == 'thorough' else 6
    out = [(t.name, {'code': t.code, 'K': K}) for t in S.TYPES if t.name != 'OPT']
    out.append(('NULL', {'code': 10, 'K': K}))
    out.append(('UNKNOWN', {'code': 65280, 'K': K}))
    out.append(('overrun', {'code': 1, 'K': K, 'overrun': True}))
    out.append(('OPT', {'code': 41, 'K': K + 2, 'opt': True}))
    # RDLENGTH running past the end of the message for types whose content would also fit in the bytes that are there
    for name, code in (('NULL', 10), ('UNKNOWN', 65280), ('TXT', 16)):
        out.append(('overrun.' + name, {'code': code, 'K': K, 'overrun_opaque': True}))
    # order: an OPT record at every position among three A records of the additional section - the A records come back in wire order
    for pos in range(4):
        out.append(('order.opt%d' % pos, {'code': 41, 'K': 0, 'order': pos}))
    # C01.alloc on record level: three minimal records of the types that own collections; the elements requested through
    # Vec::with_capacity while parsing must not exceed the message length
    for name, code, rd in (('TXT', 16, [0]), ('NSEC', 47, [0]), ('SVCB', 64, [0, 0, 0]), ('HTTPS', 65, [0, 0, 0])):
        out.append(('alloc3.' + name, {'code': code, 'K': 0, 'alloc3': rd}))
    return out


def run_alloc3(prog, tid, params):
    f_parse = [f for t, f in prog.methods[('Packet', 'parse')] if t is None][0]
    rd = params['alloc3']
    msg = be_bytes(sym('id', 'u16')) + [mk('u8', 0)] * 2 + be_bytes(mk('u16', 0)) + be_bytes(mk('u16', 3)) + [mk('u8', 0)] * 4
    for k in range(3):
        msg += [mk('u8', 0)] + be_bytes(mk('u16', params['code'])) + be_bytes(mk('u16', 1)) + be_bytes(sym('ttl%d' % k, 'u32')) + \
            be_bytes(mk('u16', len(rd))) + [mk('u8', b) for b in rd]
    stats = {}
    ok = [0]

    def run(I):
        return I.call_function(f_parse, [X.byte_buffer(I, msg)], {})

    def on_path(res):
        I = res.interp
        if res.kind == 'panic':
            m = res.ctx.model()
            return {'status': 'violation', 'role': 'panic', 'detail': '%s: panic %s' % (tid, res.msg),
                    'cex': {'entry': 'packet_parse', 'bytes': X.model_bytes(m, msg), 'expect': {'outcome': 'panic'}}}
        if res.kind != 'return':
            return None
        if res.value.var == 'Ok':
            ok[0] += 1
        total = mk('usize', 0)
        for ev in I.events:
            if ev[0] == 'alloc':
                total = I.binop('Add', total, ev[2])
        if res.ctx.check(z3.UGT(total.z(), len(msg))):
            m = res.ctx.solver.model()
            return {'status': 'violation', 'role': 'alloc', 'detail': '%s: Vec::with_capacity requests while parsing a %d-byte message of three '
                    'minimal records sum to more elements than the message has bytes (%s)' % (tid, len(msg), [e[1] for e in I.events if e[0] == 'alloc'][:6]),
                    'cex': {'entry': 'packet_parse_alloc', 'bytes': X.model_bytes(m, msg), 'expect': {'outcome': 'alloc'}}}
        return None
    v = X.explore(prog, run, on_path, loop_bound=64, stats=stats, timeout_ms=60000, hooks=HOOKS)
    out = {'paths': stats.get('paths', 0), 'queries': stats.get('queries', 0), 'solver_s': stats.get('solver_s', 0.0),
           'outcomes': stats.get('outcomes', {}), 'functions': stats.get('functions', set()), 'covers': {'ok': ok[0]},
           'covers_witnessed': 1 if ok[0] else 0}
    if v is not None:
        out.update(v)
    elif not ok[0]:
        out['status'] = 'inconclusive'
        out['detail'] = 'vacuous: the three-record message is not accepted'
    return out


def run_order(prog, tid, params):
    f_parse = [f for t, f in prog.methods[('Packet', 'parse')] if t is None][0]
    addrs = [sym('addr%d' % k, 'u32') for k in range(3)]
    recs = [[mk('u8', 0)] + be_bytes(mk('u16', 1)) + be_bytes(mk('u16', 1)) + be_bytes(sym('ttl%d' % k, 'u32')) + be_bytes(mk('u16', 4)) + be_bytes(addrs[k])
            for k in range(3)]
    opt = [mk('u8', 0)] + be_bytes(mk('u16', 41)) + be_bytes(sym('udp', 'u16')) + be_bytes(sym('ottl', 'u32')) + be_bytes(mk('u16', 0))
    recs.insert(params['order'], opt)
    msg = be_bytes(sym('id', 'u16')) + [mk('u8', 0)] * 2 + be_bytes(mk('u16', 0)) * 3 + be_bytes(mk('u16', 4))
    for r in recs:
        msg += r
    stats = {}
    ok = [0]

    def run(I):
        return I.call_function(f_parse, [X.byte_buffer(I, msg)], {})

    def on_path(res):
        def viol(role, what):
            m = res.ctx.model()
            return {'status': 'violation', 'role': role, 'detail': '%s: %s' % (tid, what),
                    'cex': {'entry': 'packet_order', 'bytes': X.model_bytes(m, msg), 'addrs': ','.join(str(m.eval(a.z(), model_completion=True).as_long()) for a in addrs),
                            'expect': {'any_failure': True}}}
        if res.kind == 'panic':
            return viol('panic', 'Packet::parse panics: ' + res.msg)
        if res.kind != 'return':
            return None
        r = res.value
        if r.var != 'Ok':
            return viol('rejected', 'a well-formed message with an OPT record among three A records is rejected')
        ok[0] += 1
        p = r.f[0]
        add = list(p.f[4].items)
        if len(add) != 3 or p.f[0].f[4].var != 'Some':
            return viol('count', '%d additional records returned, opt %s' % (len(add), p.f[0].f[4].var))
        if any(not (isinstance(x.f[3], En) and x.f[3].var == 'A') for x in add) or \
                res.ctx.check(z3.Or([x.f[3].f[0].f[0].z() != a.z() for x, a in zip(add, addrs)])):
            return viol('order', 'the additional records are not returned in the order of the wire')
        return None
    v = X.explore(prog, run, on_path, loop_bound=64, stats=stats, timeout_ms=60000, max_paths=20000, hooks=HOOKS)
    out = {'paths': stats.get('paths', 0), 'queries': stats.get('queries', 0), 'solver_s': stats.get('solver_s', 0.0),
           'outcomes': stats.get('outcomes', {}), 'functions': stats.get('functions', set()), 'covers': {'ok': ok[0]},
           'covers_witnessed': 1 if ok[0] else 0}
    if v is not None:
        out.update(v)
    elif not ok[0]:
        out['status'] = 'inconclusive'
        out['detail'] = 'vacuous: the message is not accepted'
    return out


def run_overrun_opaque(prog, tid, params):
    """header | A record | one record of an opaque / string type whose RDLENGTH announces 1..3 bytes more than the message holds"""
    f_parse = [f for t, f in prog.methods[('Packet', 'parse')] if t is None][0]
    agg = {'paths': 0, 'queries': 0, 'solver_s': 0.0, 'outcomes': {}, 'functions': set(), 'covers': {'err': 0}}
    for present in range(0, params['K'] + 1):
        for extra in (1, 2, 3):
            stats = {}
            msg = be_bytes(sym('id', 'u16')) + [mk('u8', 0)] * 2 + be_bytes(mk('u16', 0)) + be_bytes(mk('u16', 2)) + [mk('u8', 0)] * 4
            msg += [mk('u8', 0)] + be_bytes(mk('u16', 1)) + be_bytes(mk('u16', 1)) + be_bytes(sym('ttl1', 'u32')) + be_bytes(mk('u16', 4)) + be_bytes(sym('addr', 'u32'))
            msg += [mk('u8', 0)] + be_bytes(mk('u16', params['code'])) + be_bytes(mk('u16', 1)) + be_bytes(sym('ttl2', 'u32')) + \
                be_bytes(mk('u16', present + extra)) + [sym('rd%d' % i, 'u8') for i in range(present)]

            def run(I):
                return I.call_function(f_parse, [X.byte_buffer(I, msg)], {})

            def on_path(res):
                def viol(role, what):
                    m = res.ctx.model()
                    return {'status': 'violation', 'role': role, 'detail': '%s present=%d announced=%d: %s' % (tid, present, present + extra, what),
                            'cex': {'entry': 'packet_parse', 'bytes': X.model_bytes(m, msg), 'expect': {'outcome': 'ok'}}}
                if res.kind == 'panic':
                    return {'status': 'violation', 'role': 'panic', 'detail': '%s: Packet::parse panics: %s' % (tid, res.msg),
                            'cex': {'entry': 'packet_parse', 'bytes': X.model_bytes(res.ctx.model(), msg), 'expect': {'outcome': 'panic'}}}
                if res.kind != 'return':
                    return None
                if res.value.var == 'Ok':
                    return viol('overrun', 'a message whose last RDLENGTH runs past its end is accepted')
                agg['covers']['err'] += 1
                return None
            v = X.explore(prog, run, on_path, loop_bound=64, stats=stats, timeout_ms=60000, max_paths=20000, hooks=HOOKS)
            agg['paths'] += stats.get('paths', 0)
            agg['queries'] += stats.get('queries', 0)
            agg['solver_s'] += stats.get('solver_s', 0.0)
            agg['functions'].update(stats.get('functions', ()))
            if v is not None:
                agg.update(v)
                return agg
    agg['covers_witnessed'] = 1 if agg['covers']['err'] else 0
    if not agg['covers']['err']:
        agg['status'] = 'inconclusive'
        agg['detail'] = 'vacuous'
    return agg


def run_task(prog, tid, params, tier):
    if 'alloc3' in params:
        return run_alloc3(prog, tid, params)
    if 'overrun_opaque' in params:
        return run_overrun_opaque(prog, tid, params)
    if 'order' in params:
        return run_order(prog, tid, params)
    f_parse = [f for t, f in prog.methods[('Packet', 'parse')] if t is None][0]
    code, K = params['code'], params['K']
    agg = {'paths': 0, 'queries': 0, 'solver_s': 0.0, 'outcomes': {}, 'functions': set(), 'covers': {'ok': 0, 'err': 0}}
    rdlens = list(range(0, K + 1))
    variants = [('exact', 0)]
    if params.get('overrun'):
        variants = [('short%d' % d, d) for d in (1, 2, 5)]       # message cut d bytes before the end of record 2
    for rdlen in rdlens:
        for vname, cut in variants:
            stats = {}
            g_syms = []

            def fresh(ty, n):
                s = sym('%s_%d_%s' % (n, rdlen, vname), ty)
                g_syms.append(s)
                return s
            ident = fresh('u16', 'id')
            cls1, ttl1 = fresh('u16', 'cls1'), fresh('u32', 'ttl1')
            rdata1 = [fresh('u8', 'rd%d' % i) for i in range(rdlen)]
            ttl2, addr2, flush2 = fresh('u32', 'ttl2'), fresh('u32', 'addr2'), fresh('bool', 'fl2')
            cls2 = sc_from(z3.If(flush2.z(), z3.BitVecVal(0x8001, 16), z3.BitVecVal(1, 16)), 'u16')
            if params.get('opt'):
                # both records sit in the additional section; the OPT record is lifted out of it by Packet::parse
                msg = be_bytes(ident) + [mk('u8', 0)] * 2 + be_bytes(mk('u16', 0)) * 3 + be_bytes(mk('u16', 2))
            else:
                msg = be_bytes(ident) + [mk('u8', 0)] * 2 + be_bytes(mk('u16', 0)) + be_bytes(mk('u16', 2)) + [mk('u8', 0)] * 4
            msg += [mk('u8', 0)] + be_bytes(mk('u16', code)) + be_bytes(cls1) + be_bytes(ttl1) + be_bytes(mk('u16', rdlen)) + rdata1
            walker_pos = len(msg)
            msg += [mk('u8', 0)] + be_bytes(mk('u16', 1)) + be_bytes(cls2) + be_bytes(ttl2) + be_bytes(mk('u16', 4)) + be_bytes(addr2)
            if cut:
                msg = msg[:len(msg) - cut]

            def run(I):
                return I.call_function(f_parse, [X.byte_buffer(I, msg)], {})

            def on_path(res):
                def viol(role, what):
                    m = res.ctx.model()
                    return {'status': 'violation', 'role': role, 'detail': '%s rdlen=%d %s: %s' % (tid, rdlen, vname, what),
                            'cex': {'entry': 'packet_frame', 'bytes': X.model_bytes(m, msg), 'walker_pos': walker_pos,
                                    'expect': {'any_failure': True}}}
                if res.kind == 'panic':
                    return viol('panic', 'Packet::parse panics: ' + res.msg)
                if res.kind != 'return':
                    return None
                r = res.value
                if r.var != 'Ok':
                    agg['covers']['err'] += 1
                    return None
                agg['covers']['ok'] += 1
                if cut:
                    return viol('overrun', 'a message whose last record runs past the end is accepted')
                p = r.f[0]
                if params.get('opt'):
                    add = list(p.f[4].items)
                    if len(add) != 1 or p.f[0].f[4].var != 'Some' or p.f[1].items or p.f[2].items or p.f[3].items:
                        return viol('count', 'OPT + A in the additional section: %d additional records returned, opt %s' % (len(add), p.f[0].f[4].var))
                    r1, r2 = None, add[0]
                else:
                    answers = list(p.f[2].items)
                    if len(answers) != 2 or p.f[1].items or p.f[3].items or p.f[4].items:
                        return viol('count', 'accepted with %d answers instead of the 2 delimited by ANCOUNT' % len(answers))
                    r1, r2 = answers
                # record 2 must be the A record at the walker's position
                if not (isinstance(r2.f[3], En) and r2.f[3].var == 'A'):
                    return viol('next-entry', 'the entry after record 1 is not decoded as the A record at the walker position')
                bad2 = z3.Or(r2.f[3].f[0].f[0].z() != addr2.z(), r2.f[2].z() != ttl2.z(), zbool(r2.f[4]) != flush2.z(),
                             z3.BoolVal(r2.f[1].var != 'IN'), z3.BoolVal(len(r2.f[0].f[0].items) != 0))
                if res.ctx.check(bad2):
                    return viol('next-entry', 'record 2 fields are not those of the entry at the walker position (read from inside record 1?)')
                # record 1 envelope
                if r1 is not None and res.ctx.check(r1.f[2].z() != ttl1.z()):
                    return viol('envelope', 'record 1 TTL differs from its envelope')
                return None
            v = X.explore(prog, run, on_path, loop_bound=64, stats=stats, timeout_ms=60000, max_paths=20000, hooks=HOOKS)
            agg['paths'] += stats.get('paths', 0)
            agg['queries'] += stats.get('queries', 0)
            agg['solver_s'] += stats.get('solver_s', 0.0)
            for k_, n_ in stats.get('outcomes', {}).items():
                agg['outcomes'][k_] = agg['outcomes'].get(k_, 0) + n_
            agg['functions'].update(stats.get('functions', ()))
            if v is not None:
                agg.update(v)
                return agg
            if 'truncated' in stats:
                agg['status'] = 'inconclusive'
                agg['detail'] = 'truncated at rdlen %d' % rdlen
                return agg
    agg['covers_witnessed'] = sum(1 for c in agg['covers'].values() if c)
    if not (agg['covers']['ok'] or agg['covers']['err']):
        agg['status'] = 'inconclusive'
        agg['detail'] = 'vacuous'
    return agg
