"""C11: received packets survive re-serialisation.  For every message the real Packet::parse accepts (within the bounds):
build_bytes_vec and build_bytes_vec_compressed succeed on the parsed packet and parsing their output gives a packet equal
to the first in every field.
 hdr      : all 2^96 twelve-byte headers (every flag word, opcode and rcode nibble, id; counts must be 0 to be accepted)
 q.L      : header + question area of L-12 (5..7 / 5..9) bytes: L17 fully symbolic (all QTYPE/QCLASS codes, root name); longer: symbolic name bytes (names of every shape incl. pointers into the header)
 rr.<T>   : header | one record of type T with RDLENGTH 0..K and fully symbolic RDATA, class and TTLs - names inside RDATA are
            parsed for real, so foreign (non-canonical) compression pointers into earlier bytes are inside
 opt      : header | OPT record (symbolic udp size / ttl / options area) | A record, OPT placed first or last"""
import z3
from ..values import *
from .. import explore as X
from .valuegen import S, be_bytes
from .rr_roundtrip import deep_eq
from .packet_rt import fn_inherent

CRATE = 'simple-dns'


def tasks(tier, params):
    K = 6 if tier == 'thorough' else 4
    out = [('hdr', {'kind': 'hdr'})]
    for L in range(17, (22 if tier == 'thorough' else 20)):       # 12 + root name + 4 is the shortest message with a question
        out.append(('q.L%d' % L, {'kind': 'q', 'L': L}))
    for t in S.TYPES:
        if t.name != 'OPT':
            has_name = t.wrapper == 'name' or any(k == 'name' for _, k in t.fields) or t.name in ('NSEC', 'SVCB', 'HTTPS', 'IPSECKEY')
            # names inside RDATA are parsed for real (pointers may lead anywhere in the earlier bytes): smaller RDATA bound
            kk = (K - 1 if has_name else K) if tier == 'thorough' else (min(K, 2 + sum(S.WIDTH.get(k, 0) for _, k in t.fields)) if has_name else K)
            # the smallest RDATA the type can have (fixed fields, root names, empty strings): types whose minimum exceeds the
            # RDLENGTH range above would otherwise never be accepted, i.e. never re-serialised
            base = S.BY_NAME['SVCB'] if t.wrapper == 'SVCB' else t
            m = sum(S.WIDTH.get(k, 0) for _, k in base.fields) + sum(1 for _, k in base.fields if k in ('name', 'cstr')) + (1 if t.wrapper in ('name', 'cstr') else 0)
            m = {'NSAP': 20, 'IPSECKEY': 3, 'NSEC': 1, 'SVCB': 3, 'HTTPS': 3, 'TXT': 1}.get(t.name, m)
            extra = [x for x in ((m,) if has_name else (m, m + 1)) if x > kk]
            if t.name == 'SOA':
                extra = []        # two fully symbolic names in 22 bytes: the deciding queries time out (SOA is covered by C02/C03 scenario soa_minfo)
            out.append(('rr.' + t.name, {'kind': 'rr', 'code': t.code, 'K': kk, 'concrete_hdr': has_name, 'extra_lens': extra}))
    out.append(('rr.NULL', {'kind': 'rr', 'code': 10, 'K': K}))
    out.append(('rr.UNKNOWN', {'kind': 'rr', 'code': 65280, 'K': K}))
    out.append(('opt.first', {'kind': 'opt', 'first': True}))
    out.append(('opt.last', {'kind': 'opt', 'first': False}))
    out.append(('opt.first3', {'kind': 'opt', 'first': True, 'extra': True}))
    out.append(('opt.mid3', {'kind': 'opt', 'first': None, 'extra': True}))
    out.append(('opt.two', {'kind': 'opt2'}))
    out.append(('case', {'kind': 'case'}))
    return out


def run_task(prog, tid, params, tier):
    f_parse = fn_inherent(prog, 'Packet', 'parse')
    f_plain = fn_inherent(prog, 'Packet', 'build_bytes_vec')
    f_comp = fn_inherent(prog, 'Packet', 'build_bytes_vec_compressed')
    kind = params['kind']
    agg = {'paths': 0, 'queries': 0, 'solver_s': 0.0, 'outcomes': {}, 'functions': set(), 'covers': {'accepted': 0, 'rejected': 0}}
    msgs = []
    if kind == 'hdr':
        msgs.append(X.sym_bytes('h', 12))
    elif kind == 'q':
        L = params['L']
        m = X.sym_bytes('m', L)
        m[2], m[3] = mk('u8', 0), mk('u8', 0)          # flag word is covered by task hdr
        for i, v in zip(range(4, 12), (0, 1, 0, 0, 0, 0, 0, 0)):
            m[i] = mk('u8', v)                           # one question
        if L > 17:
            # L17 (root name) covers every QTYPE / QCLASS code and id; longer question names: fixed id (names may point into the
            # header and read it as labels), QTYPE A, QCLASS IN with the unicast bit symbolic
            m[0], m[1] = mk('u8', 0x12), mk('u8', 0x34)
            m[L - 4], m[L - 3], m[L - 1] = mk('u8', 0), mk('u8', 1), mk('u8', 1)
            uni = sym('uni', 'u8')
            m[L - 2] = sc_from(uni.z() & 0x80, 'u8')
        msgs.append(m)
    elif kind == 'rr':
        for rdlen in list(range(0, params['K'] + 1)) + list(params.get('extra_lens', ())):
            # for name-bearing types the envelope values are concrete: RDATA names may point anywhere into the earlier
            # bytes, and symbolic envelope bytes read as label lengths only multiply paths (they are symbolic for all other types)
            conc = params.get('concrete_hdr')
            ident = mk('u16', 0x1234) if conc else sym('id', 'u16')
            cls = mk('u16', 1) if conc else sym('cls', 'u16')
            ttl = mk('u32', 0x01020304) if conc else sym('ttl', 'u32')
            m = be_bytes(ident) + [mk('u8', 0)] * 2 + be_bytes(mk('u16', 0)) + be_bytes(mk('u16', 1)) + [mk('u8', 0)] * 4
            m += [mk('u8', 0)] + be_bytes(mk('u16', params['code'])) + be_bytes(cls) + be_bytes(ttl)
            m += be_bytes(mk('u16', rdlen)) + [sym('rd%d' % i, 'u8') for i in range(rdlen)]
            msgs.append(m)
    elif kind == 'opt2':
        # two different OPT records around an A record: the first one is the message's EDNS data, the second stays a record
        def opt_rec(tag):
            return [mk('u8', 0)] + be_bytes(mk('u16', 41)) + be_bytes(sym('udp' + tag, 'u16')) + be_bytes(sym('ottl' + tag, 'u32')) + be_bytes(mk('u16', 0))
        a_rec = [mk('u8', 0)] + be_bytes(mk('u16', 1)) + be_bytes(mk('u16', 1)) + be_bytes(sym('ttla', 'u32')) + be_bytes(mk('u16', 4)) + be_bytes(sym('addr', 'u32'))
        hdr = be_bytes(sym('id', 'u16')) + [mk('u8', 0), mk('u8', 0)] + be_bytes(mk('u16', 0)) * 3 + be_bytes(mk('u16', 3))
        msgs.append(hdr + opt_rec('1') + a_rec + opt_rec('2'))
    elif kind == 'case':
        # a question name and an owner name of the same shape with independent bytes (equal, different, or differing only in
        # letter case): compression may only merge them when they are byte-wise equal
        qn = [mk('u8', 2), sym('c0', 'u8'), sym('c1', 'u8'), mk('u8', 0)]
        on = [mk('u8', 2), sym('d0', 'u8'), sym('d1', 'u8'), mk('u8', 0)]
        hdr = be_bytes(mk('u16', 0x1234)) + [mk('u8', 0), mk('u8', 0)] + be_bytes(mk('u16', 1)) + be_bytes(mk('u16', 1)) + be_bytes(mk('u16', 0)) * 2
        msgs.append(hdr + qn + be_bytes(mk('u16', 1)) + be_bytes(mk('u16', 1)) +
                    on + be_bytes(mk('u16', 1)) + be_bytes(mk('u16', 1)) + be_bytes(mk('u32', 60)) + be_bytes(mk('u16', 4)) + be_bytes(sym('addr', 'u32')))
    else:
        for nopt in ((0,) if params.get('extra') else (0, 4, 5)):
            a_rec = [mk('u8', 0)] + be_bytes(mk('u16', 1)) + be_bytes(mk('u16', 1)) + be_bytes(sym('ttla', 'u32')) + be_bytes(mk('u16', 4)) + be_bytes(sym('addr', 'u32'))
            b_rec = [mk('u8', 0)] + be_bytes(mk('u16', 1)) + be_bytes(mk('u16', 1)) + be_bytes(sym('ttlb', 'u32')) + be_bytes(mk('u16', 4)) + be_bytes(sym('addrb', 'u32'))
            opt = [mk('u8', 0)] + be_bytes(mk('u16', 41)) + be_bytes(sym('udp', 'u16')) + be_bytes(sym('ottl', 'u32')) + \
                be_bytes(mk('u16', nopt)) + [sym('o%d' % i, 'u8') for i in range(nopt)]
            if params.get('extra'):
                # three additional records: the two A records must keep their wire order whatever the OPT position
                hdr = be_bytes(sym('id', 'u16')) + [mk('u8', 0), mk('u8', 0)] + be_bytes(mk('u16', 0)) * 3 + be_bytes(mk('u16', 3))
                msgs.append(hdr + (opt + a_rec + b_rec if params['first'] else a_rec + opt + b_rec))
                continue
            hdr = be_bytes(sym('id', 'u16')) + [sym('f0', 'u8'), sym('f1', 'u8')] + be_bytes(mk('u16', 0)) * 3 + be_bytes(mk('u16', 2))
            msgs.append(hdr + (opt + a_rec if params['first'] else a_rec + opt))
    for msg in msgs:
        stats = {}

        def run(I):
            I.hash_order_fixed = True
            r = I.call_function(f_parse, [X.byte_buffer(I, msg, 'in')], {})
            if r.var != 'Ok':
                return None
            p = r.f[0]
            pref = I.new_ref(p, 'p')
            out = {'p': p}
            for name, f in (('plain', f_plain), ('comp', f_comp)):
                b = I.call_function(f, [pref], {})
                out[name] = b
                if b.var == 'Ok':
                    out[name + '_parsed'] = I.call_function(f_parse, [X.byte_buffer(I, list(b.f[0].items), name)], {})
            return out

        def on_path(res):
            I = res.interp

            def viol(role, what):
                m = res.ctx.model()
                return {'status': 'violation', 'role': role, 'detail': '%s: %s' % (tid, what),
                        'cex': {'entry': 'reserialize', 'bytes': X.model_bytes(m, msg), 'expect': {'any_failure': True}}}
            if res.kind == 'panic':
                return viol('panic', 'panic: ' + res.msg)
            if res.kind != 'return':
                return None
            o = res.value
            if o is None:
                agg['covers']['rejected'] += 1
                return None
            if 'soft' in agg and False:
                return None
            agg['covers']['accepted'] += 1
            p = o['p']
            if kind == 'opt' and params.get('extra'):
                ad = list(p.f[4].items)
                a0 = z3.BitVec('addr', 32)
                b0 = z3.BitVec('addrb', 32)
                if len(ad) != 2 or res.ctx.check(z3.Or(ad[0].f[3].f[0].f[0].z() != a0, ad[1].f[3].f[0].f[0].z() != b0)):
                    return viol('order', 'the additional records left after lifting the OPT record out are not in their wire order')
            for name in ('plain', 'comp'):
                if o[name].var != 'Ok':
                    return viol('build-' + name, 'serialising an accepted packet fails (%s)' % name)
                q = o[name + '_parsed']
                if q.var != 'Ok':
                    return viol('reparse-' + name, 'the %s re-serialisation of an accepted packet is rejected' % name)
                q = q.f[0]
                # header first: the response code gets its own role (known finding for reserved values)
                h1, h2 = p.f[0], q.f[0]
                if h1.f[2].var != h2.f[2].var:
                    if h1.f[2].var == 'Reserved':
                        # recorded and exploration continues, so that this (known) finding cannot mask any other
                        agg.setdefault('soft', viol('rcode-reserved', 'response code Reserved (an unnamed code) comes back as %s after %s '
                                                    're-serialisation' % (h2.f[2].var, name)))
                        return None
                    return viol('rcode', 'response code %s comes back as %s after %s re-serialisation' % (h1.f[2].var, h2.f[2].var, name))
                if res.ctx.check(z3.Not(deep_eq(I, q, p))):
                    return viol('fields-' + name, 'parse(%s re-serialisation) differs from the packet the parser returned' % name)
            return None
        hooks = None
        v = X.explore(prog, run, on_path, loop_bound=10, stats=stats, timeout_ms=60000, max_paths=60000, time_budget=1200)
        agg['paths'] += stats.get('paths', 0)
        agg['queries'] += stats.get('queries', 0)
        agg['solver_s'] += stats.get('solver_s', 0.0)
        for k_, n_ in stats.get('outcomes', {}).items():
            agg['outcomes'][k_] = agg['outcomes'].get(k_, 0) + n_
        agg['functions'].update(stats.get('functions', ()))
        if v is not None:
            agg.update(v)
            return agg
        if 'truncated' in stats:
            agg['status'] = 'inconclusive'
            agg['detail'] = 'truncated: ' + stats['truncated']
            return agg
    if 'soft' in agg:
        soft = agg.pop('soft')
        agg.update(soft)
        agg['covers_witnessed'] = 1
        return agg
    agg['bound_ok'] = ('names inside the received message whose decoding needs more than 10 Name::parse loop iterations (long backwards-pointer '
                       'cycles) are outside the bound; Name::parse itself is decided by C06 / C01.name')
    agg['covers_witnessed'] = 1 if agg['covers']['accepted'] else 0
    if not agg['covers']['accepted']:
        agg['status'] = 'inconclusive'
        agg['detail'] = 'vacuous: nothing accepted'
    return agg
