"""simple-mdns handling pipeline on the real MIR (C14, C15):
 ingest     : add_response_to_resources(packet, service, own_full_name, store, None) for response packets whose answer /
              additional records are owned by names from a pool over shared symbolic labels (arbitrary bytes): no panic; afterwards the
              store holds exactly the packet's records whose owner is a strict subdomain of the watched service and is not the
              discoverer's own instance name (C15 filter) - as cached records
 reply_wire : every Some(reply) of build_reply serialises with build_bytes_vec_compressed and the bytes are accepted by Packet::parse
 escape     : unescaped_instance_name(escaped_instance_name(s)) == s for all strings of <= 3 chars (full Unicode scalar range)
The socket loops themselves (recv_from / send_to / threads) are outside: their bodies are exactly these calls plus the header
peek functions (C01.peek_any_length) and Packet::parse (C01)."""
import z3
from ..values import *
from .. import explore as X
from ..models_coll import utf8_encode
from . import valuegen as VG
from .rr_roundtrip import deep_eq
from .mdns_store import Pool, POOL, name_eq, name_sub, free_fn, inherent, reply_scenarios

CRATE = 'simple-mdns'


def tasks(tier, params):
    part = params.get('part')
    out = []
    if part in (None, 'ingest'):
        ing = [
            dict(service='n3', own='n1', an=[('n1', 'A'), ('n6', 'A')], ar=[('n3', 'A')]),
            dict(service='n3', own='n6', an=[('n4', 'A'), ('n2', 'A')], ar=[('n1', 'A')]),
            dict(service='r', own='n5', an=[('n5', 'A'), ('n3', 'A')], ar=[]),
            dict(service='n1', own='n4', an=[('n4', 'A'), ('n1', 'A')], ar=[('n2', 'A')]),
            dict(service='n3', own='n6', an=[('n1', 'TXT'), ('n1', 'A')], ar=[]),
        ]
        for i, sc in enumerate(ing):
            out.append(('ingest.%d' % i, {'part': 'ingest', 'sc': sc}))
    if part in (None, 'reply_wire'):
        for i, sc in enumerate(reply_scenarios('quick')):
            if sc['ops'] and sc['q'] and all(o[0] != 'remove' for o in sc['ops']):
                out.append(('reply_wire.%d' % i, {'part': 'reply_wire', 'sc': sc}))
        # a TXT record whose single string was accepted by the validating constructor at the length limit (255 accepted, 256 refused)
        for n in (255, 256):
            out.append(('reply_wire.txt%d' % n, {'part': 'reply_wire', 'sc': dict(ops=[('auth', 'n1', 'TXT%d' % n, None)], q=[('n1', 'ANY', 'ANY')])}))
    if part in (None, 'escape'):
        for n in range(0, 4 if tier == 'quick' else 5):
            out.append(('escape.%d' % n, {'part': 'escape', 'n': n}))
    return out


def run_task(prog, tid, params, tier):
    part = params['part']
    stats = {}
    okp = [0]

    def finish(v):
        out = {'paths': stats.get('paths', 0), 'queries': stats.get('queries', 0), 'solver_s': stats.get('solver_s', 0.0),
               'outcomes': stats.get('outcomes', {}), 'functions': stats.get('functions', set()),
               'covers': {'complete': okp[0]}, 'covers_witnessed': 1 if okp[0] else 0}
        if v is not None:
            out.update(v)
        elif 'truncated' in stats or stats.get('outcomes', {}).get('bound'):
            out['status'] = 'inconclusive'
            out['detail'] = 'truncated/bound'
        elif not okp[0]:
            out['status'] = 'inconclusive'
            out['detail'] = 'vacuous'
        return out

    def rs_name(m, pool, nid):
        return 'nm(&[%s])' % ', '.join('&[%s]' % ', '.join(str(VG.ev(m, b)) for b in pool.label(l)) for l in POOL[nid])

    def ingest_case(res, m):
        I = res.interp
        pool = I.pool
        sc_ = params['sc']
        L = ['#[test]', 'fn verif_case() {', '    let mut mgr = ResourceRecordManager::new();', '    let mut p = Packet::new_reply(1);',
             '    let mut recs: Vec<ResourceRecord<\'static>> = Vec::new();']
        n_an = len(sc_['an'])
        for i, (owner, rec) in enumerate(I.recs):
            if rec.f[3].var == 'TXT':
                strs = ['.with_char_string(CharacterString::new(&[%s]).unwrap())' % ', '.join(str(VG.ev(m, b)) for b in I.seq_list(c.f[0]))
                        for c in rec.f[3].f[0].f[0].items]
                rds = 'RData::TXT(TXT::new()%s)' % ''.join(strs)
            else:
                rds = 'RData::A(A { address: %d })' % VG.ev(m, rec.f[3].f[0].f[0])
            L.append('    let r = rec(%s, CLASS::IN, %d, %s, %s);' % (
                rs_name(m, pool, owner), VG.ev(m, rec.f[2]), 'true' if VG.ev(m, rec.f[4]) else 'false', rds))
            L.append('    recs.push(r.clone());')
            L.append('    p.%s.push(r);' % ('answers' if i < n_an else 'additional_records'))
        L += ['    let service = %s;' % rs_name(m, pool, sc_['service']), '    let own = %s;' % rs_name(m, pool, sc_['own']),
              '    crate::sync_discovery::add_response_for_test(p, &service, &own, &mut mgr);',
              '    let _ = crate::InstanceInformation::from_records(&service, recs.iter());',
              '    report(check_ingest(&mgr, &recs, &service, &own));', '}']
        return '\n'.join(L)

    def reply_wire_case(res, m):
        I = res.interp
        pool = I.pool
        L = ['#[test]', 'fn verif_case() {', '    let mut mgr = ResourceRecordManager::new();']
        for (kind, owner, rtype, extra, rec) in I.rw['recs']:
            ttl, flush = VG.ev(m, rec.f[2]), 'true' if VG.ev(m, rec.f[4]) else 'false'
            rd = rec.f[3].f[0]
            if rtype == 'A':
                rds = 'RData::A(A { address: %d })' % VG.ev(m, rd.f[0])
            elif rtype == 'SRV':
                rds = 'RData::SRV(SRV { priority: 0, weight: 0, port: %d, target: %s })' % (VG.ev(m, rd.f[2]), rs_name(m, pool, extra))
            else:
                bs = I.seq_list(rd.f[0].items[0].f[0])
                rds = 'RData::TXT(TXT::new().with_char_string(CharacterString::new(&[%s]).unwrap()))' % ', '.join(str(VG.ev(m, b)) for b in bs)
            L.append('    mgr.%s(rec(%s, CLASS::IN, %d, %s, %s));' % ('add_authoritative_resource' if kind == 'auth' else 'add_cached_resource',
                                                                  rs_name(m, pool, owner), ttl, flush, rds))
        L.append('    let mut query = Packet::new_query(7);')
        for (qn, qt, qc, uni) in I.rw['qs']:
            qts = 'QTYPE::ANY' if qt == 'ANY' else 'QTYPE::TYPE(TYPE::%s)' % qt
            qcs = 'QCLASS::ANY' if qc == 'ANY' else 'QCLASS::CLASS(CLASS::%s)' % qc
            L.append('    query.questions.push(Question::new(%s, %s, %s, %s));' % (rs_name(m, pool, qn), qts, qcs, 'true' if VG.ev(m, uni) else 'false'))
        L += ['    let mgr: &\'static ResourceRecordManager<\'static> = Box::leak(Box::new(mgr));',
              '    let mut fails = Vec::new();',
              '    if let Some((reply, _)) = crate::build_reply(query, mgr) {',
              '        match reply.build_bytes_vec_compressed() {',
              '            Ok(bytes) => match Packet::parse(&bytes) {',
              '                Ok(p) => if format!("{:?}", p) != format!("{:?}", reply) { fails.push("reply-eq"); },',
              '                Err(_) => fails.push("reply-parse"),',
              '            },',
              '            Err(_) => fails.push("reply-build"),',
              '        }',
              '    }',
              '    report(fails);', '}']
        return '\n'.join(L)

    def viol(res, role, what, extra=None):
        m = res.ctx.model()
        pool = getattr(res.interp, 'pool', None)
        labs = {k: [VG.ev(m, b) for b in v] for k, v in pool.lab.items()} if pool else {}
        cex = {'entry': 'mdns-pipeline-no-native-entry', 'task': tid, 'labels': labs}
        if part == 'reply_wire' and hasattr(res.interp, 'rw'):
            try:
                cex.update({'entry': 'mdns_test', 'code': reply_wire_case(res, m), 'expect': {'any_failure': True}})
            except Exception as e:      # noqa
                cex['code_error'] = repr(e)
        if part == 'ingest' and hasattr(res.interp, 'recs'):
            try:
                cex.update({'entry': 'mdns_test', 'code': ingest_case(res, m), 'expect': {'any_failure': True}})
            except Exception as e:      # noqa
                cex['code_error'] = repr(e)
        if extra:
            cex.update(extra(m))
        return {'status': 'violation', 'role': role, 'detail': '%s: %s (labels %r)' % (tid, what, labs), 'cex': cex}

    if part == 'escape':
        f_esc = free_fn(prog, 'escaped_instance_name')
        f_unesc = free_fn(prog, 'unescaped_instance_name')
        n = params['n']
        chars = [sym('ch%d' % i, 'char') for i in range(n)]
        holder = {}

        def run(I):
            bs = []
            for c in chars:
                I.ctx.assume(z3.And(z3.ULE(c.z(), 0x10FFFF), z3.Or(z3.ULT(c.z(), 0xD800), z3.UGT(c.z(), 0xDFFF))))
                bs += utf8_encode(I, c)
            holder['bytes'] = bs
            s = SliceRef(Ref(Cell(Agg('array', bs), 's')), mk('usize', 0), mk('usize', len(bs)), True)
            # unescaping an ARBITRARY string (a received instance label: trailing backslash, backslash before a multi-byte
            # character, ...) must not panic either
            I.call_function(f_unesc, [s], {})
            e = I.call_function(f_esc, [s], {})
            es = SliceRef(I.new_ref(e, 'e'), mk('usize', 0), mk('usize', len(e.items)), True)
            u = I.call_function(f_unesc, [es], {})
            return list(u.items)

        def on_path(res):
            if res.kind == 'panic':
                return viol(res, 'panic', 'escape/unescape panics: ' + res.msg, lambda m: {'entry': 'mdns_test', 'expect': {'any_failure': True},
                            'code': escape_case(X.model_bytes(m, holder['bytes']))})
            if res.kind != 'return':
                return None
            u = res.value
            bs = holder['bytes']
            okp[0] += 1
            if len(u) != len(bs) or (bs and res.ctx.check(z3.Or([a.z() != b.z() for a, b in zip(u, bs)]))):
                return viol(res, 'escape', 'unescape(escape(s)) != s', lambda m: {'entry': 'mdns_test', 'expect': {'any_failure': True},
                            'code': escape_case(X.model_bytes(m, bs))})
            return None
        return finish(X.explore(prog, run, on_path, loop_bound=100, stats=stats, timeout_ms=60000))

    f_new = inherent(prog, 'ResourceRecordManager', 'new')
    f_add_a = inherent(prog, 'ResourceRecordManager', 'add_authoritative_resource')
    f_add_c = inherent(prog, 'ResourceRecordManager', 'add_cached_resource')

    if part == 'ingest':
        sc = params['sc']
        cands = [f for f in prog.free.get('add_response_to_resources', []) if 'sync_discovery' in f.name or True]
        f_ing = [f for f in cands if len(f.params) == 5 and 'Sender' in f.params[4][1] and 'tokio' not in f.params[4][1]]
        if not f_ing:
            raise Unsupported("add_response_to_resources (sync) not found")
        f_ing = f_ing[0]
        f_from = inherent(prog, 'InstanceInformation', 'from_records')

        def run(I):
            I.hash_order_fixed = True
            pool = I.pool = Pool(prog, I)
            g = pool.g
            mgr = I.new_ref(I.call_function(f_new, [], {}), 'mgr')

            def rec(owner, k, kind='A'):
                if kind == 'TXT':
                    # what an instance without attributes announces (one empty string) plus a short arbitrary string
                    c0, _ = g.cstr(0)
                    c1, _ = g.cstr(2)
                    rd = En('RData', 'TXT', (g.struct('TXT', strings=VecV([c0, c1]), size=mk('usize', 4)),))
                else:
                    rd = En('RData', 'A', (g.struct('A', address=g.fresh('u32', 'addr%d' % k)),))
                return g.struct('ResourceRecord', name=pool.name(owner), **{'class': En('CLASS', 'IN')}, ttl=g.fresh('u32', 'ttl%d' % k),
                                rdata=rd, cache_flush=g.fresh('bool', 'fl%d' % k))
            an = [rec(o, i, kd) for i, (o, kd) in enumerate(sc['an'])]
            ar = [rec(o, 10 + i, kd) for i, (o, kd) in enumerate(sc['ar'])]
            I.recs = list(zip([o for o, _ in sc['an']] + [o for o, _ in sc['ar']], an + ar))
            hdr = g.struct('Header', id=g.fresh('u16', 'id'), opcode=En('OPCODE', 'StandardQuery'), response_code=En('RCODE', 'NoError'),
                           z_flags=Agg('PacketFlag', (Agg('InternalBitFlags', (mk('u16', 0x8000),)),)), opt=NONE)
            pkt = g.struct('Packet', header=hdr, questions=VecV(()), answers=VecV(an), name_servers=VecV(()), additional_records=VecV(ar))
            chan = I.new_ref(NONE, 'chan')
            I.call_function(f_ing, [pkt, I.new_ref(pool.name(sc['service']), 'svc'), I.new_ref(pool.name(sc['own']), 'own'), mgr, chan], {})
            # what the listener does next for its on_discovery channel / get_known_services: turn the records of an instance
            # into an InstanceInformation - with hostile (arbitrary-byte) instance labels this must not panic either
            refs = [I.new_ref(r, 'seen%d' % k) for k, r in enumerate(an + ar)]
            I.call_function(f_from, [I.new_ref(pool.name(sc['service']), 'svc2'), IterV('list', items=tuple(refs), i=0)], {})
            return I.load_ref(mgr)

        def on_path(res):
            I = res.interp
            if res.kind == 'panic':
                return viol(res, 'panic', 'ingesting a response panics: ' + res.msg)
            if res.kind != 'return':
                return None
            okp[0] += 1
            pool = I.pool
            trie = res.value.f[0]
            stored = []
            for key, bucket in trie.entries:
                for r, kind in bucket.entries:
                    stored.append((r, kind))
            ls, lo = pool.labels(sc['service']), pool.labels(sc['own'])
            # every stored record is one of the packet's admissible records, as a cached record
            for r, kind in stored:
                if kind.var != 'Cached':
                    return viol(res, 'kind', 'an ingested record is stored as authoritative')
                conds = []
                for owner, rec in I.recs:
                    l = pool.labels(owner)
                    admissible = z3.And(name_sub(l, ls), z3.Not(name_eq(l, lo)))
                    conds.append(z3.And(admissible, deep_eq(I, r.f[3], rec.f[3]), deep_eq(I, r.f[0], rec.f[0])))
                if res.ctx.check(z3.Not(z3.Or([z3.BoolVal(False)] + conds))):
                    return viol(res, 'filter', 'a record of the own instance / the service name / a non-subdomain was ingested')
            for owner, rec in I.recs:
                l = pool.labels(owner)
                admissible = z3.And(name_sub(l, ls), z3.Not(name_eq(l, lo)))
                present = z3.Or([z3.BoolVal(False)] + [z3.And(deep_eq(I, r.f[3], rec.f[3]), deep_eq(I, r.f[0], rec.f[0])) for r, _ in stored])
                if res.ctx.check(z3.And(admissible, z3.Not(present))):
                    return viol(res, 'lost', 'an admissible record of the response was not stored')
            return None
        return finish(X.explore(prog, run, on_path, loop_bound=300, stats=stats, timeout_ms=60000, max_paths=50000))

    if part == 'reply_wire':
        from .mdns_store import run_task as _unused  # noqa
        sc = params['sc']
        f_reply = free_fn(prog, 'build_reply')
        f_comp = inherent(prog, 'Packet', 'build_bytes_vec_compressed')
        f_parse = inherent(prog, 'Packet', 'parse')

        def run(I):
            I.hash_order_fixed = True
            pool = I.pool = Pool(prog, I)
            g = pool.g
            mgr = I.new_ref(I.call_function(f_new, [], {}), 'mgr')
            I.rw = {'recs': [], 'qs': []}
            for k, (kind, owner, rtype, extra) in enumerate(sc['ops']):
                if rtype == 'A':
                    rd = En('RData', 'A', (g.struct('A', address=g.fresh('u32', 'addr%d' % k)),))
                elif rtype == 'SRV':
                    rd = En('RData', 'SRV', (g.struct('SRV', priority=mk('u16', 0), weight=mk('u16', 0), port=g.fresh('u16', 'port%d' % k), target=pool.name(extra)),))
                elif rtype.startswith('TXT') and len(rtype) > 3:
                    n = int(rtype[3:])
                    raw = [g.fresh('u8', 'tx') for _ in range(n)]
                    cs = I.call_function(inherent(prog, 'CharacterString', 'new'), [X.byte_buffer(I, raw, 'txtsrc')], {})
                    if cs.var != 'Ok':
                        continue          # refused at construction: nothing is registered
                    rd = En('RData', 'TXT', (g.struct('TXT', strings=VecV([cs.f[0]]), size=mk('usize', n + 1)),))
                else:
                    c, _ = g.cstr(1)
                    rd = En('RData', 'TXT', (g.struct('TXT', strings=VecV([c]), size=mk('usize', 2)),))
                rec = g.struct('ResourceRecord', name=pool.name(owner), **{'class': En('CLASS', 'IN')}, ttl=g.fresh('u32', 'ttl%d' % k),
                               rdata=rd, cache_flush=g.fresh('bool', 'fl%d' % k))
                I.rw['recs'].append((kind, owner, rtype, extra, rec))
                I.call_function(f_add_a if kind == 'auth' else f_add_c, [mgr, rec], {})
            qs = []
            for k, (qn, qt, qc) in enumerate(sc['q']):
                qtype = En('QTYPE', 'ANY') if qt == 'ANY' else En('QTYPE', 'TYPE', (En('TYPE', qt),))
                qclass = En('QCLASS', 'ANY') if qc == 'ANY' else En('QCLASS', 'CLASS', (En('CLASS', qc),))
                uni_ = g.fresh('bool', 'uni%d' % k)
                I.rw['qs'].append((qn, qt, qc, uni_))
                qs.append(g.struct('Question', qname=pool.name(qn), qtype=qtype, qclass=qclass, unicast_response=uni_))
            hdr = g.struct('Header', id=g.fresh('u16', 'id'), opcode=En('OPCODE', 'StandardQuery'), response_code=En('RCODE', 'NoError'),
                           z_flags=Agg('PacketFlag', (Agg('InternalBitFlags', (mk('u16', 0),)),)), opt=NONE)
            pkt = g.struct('Packet', header=hdr, questions=VecV(qs), answers=VecV(()), name_servers=VecV(()), additional_records=VecV(()))
            r = I.call_function(f_reply, [pkt, mgr], {})
            if r.var == 'None':
                return None
            reply = r.f[0].f[0]
            b = I.call_function(f_comp, [I.new_ref(reply, 'reply')], {})
            if b.var != 'Ok':
                return ('build', None, reply)
            p = I.call_function(f_parse, [X.byte_buffer(I, list(b.f[0].items), 'wire')], {})
            return ('parsed', p, reply)

        def on_path(res):
            I = res.interp
            if res.kind == 'panic':
                return viol(res, 'panic', 'answering a query panics: ' + res.msg)
            if res.kind != 'return':
                return None
            okp[0] += 1
            if res.value is None:
                return None
            st, p, reply = res.value
            if st == 'build':
                return viol(res, 'reply-build', 'the reply cannot be serialised')
            if p.var != 'Ok':
                return viol(res, 'reply-parse', 'the serialised reply is not a parseable DNS message')
            if res.ctx.check(z3.Not(deep_eq(I, p.f[0], reply))):
                return viol(res, 'reply-eq', 'the parsed reply differs from the reply that was built')
            return None
        return finish(X.explore(prog, run, on_path, loop_bound=300, stats=stats, timeout_ms=60000, max_paths=50000))
    raise Unsupported(part)


def escape_case(bs):
    return '''#[test]
fn verif_case() {
    let s = String::from_utf8(vec![%s]).unwrap();
    let info = crate::InstanceInformation::new(s.clone());
    let _ = info.unescaped_instance_name();
    let e = info.escaped_instance_name();
    let back = crate::InstanceInformation::new(e).unescaped_instance_name();
    report(if back == s { vec![] } else { vec!["escape"] });
}''' % ', '.join(str(b) for b in bs)
