"""C16 (simple-mdns part): InstanceInformation values that compare equal hash equally - in particular when the same members were
inserted into the address / port sets in different orders (every iteration order of both HashSets is explored)."""
import z3
from ..values import *
from .. import explore as X
from . import valuegen as VG
from .owned_hash import stream_eq

CRATE = 'simple-mdns'


def tasks(tier, params):
    return [('ips%d.ports%d' % (a, b), {'ips': a, 'ports': b}) for a, b in ((0, 0), (2, 0), (0, 2), (2, 1), (1, 2))]


def run_task(prog, tid, params, tier):
    f_hash = [f for t, f in prog.methods[('InstanceInformation', 'hash')] if (t or '').endswith('Hash')][0]
    f_eq = [f for t, f in prog.methods[('InstanceInformation', 'eq')] if (t or '').startswith('PartialEq')][0]
    stats = {}
    okp = [0]

    def run(I):
        g = VG.Gen(prog, I.ctx)
        name = [g.fresh('u8', 'nm') for _ in range(2)]
        ips = [En('IpAddr', 'V4', (Agg('Ipv4Addr', (Agg('array', [g.fresh('u8', 'ip%d' % k) for _ in range(4)]),)),)) for k in range(params['ips'])]
        ports = [g.fresh('u16', 'port%d' % k) for k in range(params['ports'])]
        if len(ips) == 2:
            I.ctx.assume(z3.Not(I.value_eq(ips[0], ips[1])))
        if len(ports) == 2:
            I.ctx.assume(ports[0].z() != ports[1].z())

        def inst(order):
            ipl = ips if order == 0 else ips[::-1]
            pl = ports if order == 0 else ports[::-1]
            return g.struct('InstanceInformation', instance_name=VecV(name, True),
                            ip_addresses=MapV('HashSet', [(x, UNIT) for x in ipl]), ports=MapV('HashSet', [(x, UNIT) for x in pl]),
                            attributes=MapV('HashMap', []))
        a, b = inst(0), inst(1)
        ra, rb = I.new_ref(a, 'a'), I.new_ref(b, 'b')
        e = I.call_function(f_eq, [ra, rb], {})
        ha, hb = Cell(HasherV(), 'ha'), Cell(HasherV(), 'hb')
        I.call_function(f_hash, [ra, Ref(ha)], {})
        I.call_function(f_hash, [rb, Ref(hb)], {})
        return e, ha.v.stream, hb.v.stream

    def on_path(res):
        if res.kind == 'panic':
            return {'status': 'violation', 'role': 'panic', 'detail': 'InstanceInformation eq/hash panics: ' + res.msg, 'cex': {'entry': 'none'}}
        if res.kind != 'return':
            return None
        e, sa, sb = res.value
        okp[0] += 1
        if res.ctx.check(z3.Not(zbool(e))):
            return {'status': 'inconclusive', 'detail': 'harness defect: the two instances were built equal but compare different'}
        if res.ctx.check(z3.Not(stream_eq(sa, sb))):
            m = res.ctx.model()
            return {'status': 'violation', 'role': 'hash-order', 'detail': '%s: equal InstanceInformation values (same members, different insertion / '
                    'iteration order) feed different byte streams to the hasher' % tid,
                    'cex': {'entry': 'mdns_test', 'expect': {'any_failure': True}, 'code': NATIVE % (params['ips'], params['ports'])}}
        return None
    v = X.explore(prog, run, on_path, loop_bound=100, stats=stats, timeout_ms=60000, max_paths=20000)
    out = {'paths': stats.get('paths', 0), 'queries': stats.get('queries', 0), 'solver_s': stats.get('solver_s', 0.0),
           'outcomes': stats.get('outcomes', {}), 'functions': stats.get('functions', set()), 'covers': {'pairs': okp[0]},
           'covers_witnessed': 1 if okp[0] else 0}
    if v is not None:
        out.update(v)
    elif not okp[0]:
        out['status'] = 'inconclusive'
        out['detail'] = 'vacuous'
    return out


# the native replay cannot force a HashSet iteration order; it samples many member sets with two insertion orders
NATIVE = r'''
#[test]
fn verif_case() {
    use std::collections::hash_map::DefaultHasher;
    use std::hash::{Hash, Hasher};
    use std::net::{IpAddr, Ipv4Addr};
    let (nips, nports) = (%d usize, %d usize);
    let mut fails = Vec::new();
    for seed in 0u32..400 {
        let ips: Vec<IpAddr> = (0..nips as u32).map(|k| IpAddr::V4(Ipv4Addr::from(seed.wrapping_mul(2654435761).wrapping_add(k * 977)))).collect();
        let ports: Vec<u16> = (0..nports as u32).map(|k| (seed.wrapping_mul(40503).wrapping_add(k * 7919)) as u16).collect();
        let mut a = crate::InstanceInformation::new("x".to_string());
        let mut b = crate::InstanceInformation::new("x".to_string());
        for ip in ips.iter() { a = a.with_ip_address(*ip); }
        for ip in ips.iter().rev() { b = b.with_ip_address(*ip); }
        for p in ports.iter() { a = a.with_port(*p); }
        for p in ports.iter().rev() { b = b.with_port(*p); }
        let (mut ha, mut hb) = (DefaultHasher::new(), DefaultHasher::new());
        a.hash(&mut ha);
        b.hash(&mut hb);
        if a == b && ha.finish() != hb.finish() { fails.push("hash-order"); break; }
    }
    report(fails);
}
'''
