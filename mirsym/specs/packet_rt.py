"""Packet-level obligations on the real Packet::{build_bytes_vec, build_bytes_vec_compressed, parse} MIR
(C02.packet, C03.packet, C04.frame, C09.wire, C16.owned partially):

 for packets built from parts (symbolic id, flag bits, TTLs, integer fields and all name/label bytes; concrete section
 shape per scenario) decide with z3 that
   frame : an independent RFC 1035 envelope walker over the plain bytes finds header counts == entries written
           (OPT counted once), each RDLENGTH == RDATA bytes, and ends exactly at the end of output
   plain : Packet::parse(plain bytes) == the packet built (every observable field)
   comp  : Packet::parse(compressed bytes) == Packet::parse(plain bytes), compressed length <= plain length
One task per scenario."""
import z3
from ..values import *
from .. import explore as X
from . import valuegen as VG
from .valuegen import S
from .rr_roundtrip import deep_eq, CLASSES

CRATE = 'simple-dns'

FLAG_BITS = 0x8000 | 0x0400 | 0x0200 | 0x0100 | 0x0080 | 0x0020 | 0x0010
OPCODES = [('StandardQuery', 0), ('InverseQuery', 1), ('ServerStatusRequest', 2), ('Notify', 4), ('Update', 5)]
RCODES = [('NoError', 0), ('FormatError', 1), ('ServerFailure', 2), ('NameError', 3), ('NotImplemented', 4), ('Refused', 5),
          ('YXDOMAIN', 6), ('YXRRSET', 7), ('NXRRSET', 8), ('NOTAUTH', 9), ('NOTZONE', 10), ('BADVERS', 16)]

# scenario = dict(q=[name ids], an=[(type, name id, rdata name ids)], ns=[..], ar=[..], opt=None|[option lens],
#                 names={id: (shape, share)}), where `share` lets two names share label byte symbols (suffix sharing)
def scenarios(tier):
    sc = []
    # names: 'a' = x.y, 'b' = w.x.y (subdomain of a), 'c' = x.y again (equal to a), 'd' = z (unrelated), 'r' = root
    base_names = {'a': ('L1', 'L2'), 'b': ('L0', 'L1', 'L2'), 'c': ('L1', 'L2'), 'd': ('L3',), 'r': (),
                  'm': ('B63a', 'B63b', 'B63c', 'B61'), 'n': ('L0', 'B63b', 'B63c', 'B61'), 'e': ('L2',),
                  'f': ('L1b', 'L2')}      # same shape as 'a' with an independent first label (equal, different, or equal up to letter case)
    sc.append(('empty', dict(q=[], an=[], ns=[], ar=[], opt=None)))
    sc.append(('q1', dict(q=['a'], an=[], ns=[], ar=[], opt=None)))
    sc.append(('q2_shared', dict(q=['a', 'b'], an=[], ns=[], ar=[], opt=None)))
    sc.append(('q_an_a', dict(q=['a'], an=[('A', 'c', [])], ns=[], ar=[], opt=None)))
    sc.append(('an_ns_ptr', dict(q=['b'], an=[('NS', 'a', ['b'])], ns=[('PTR', 'd', ['c'])], ar=[], opt=None)))
    sc.append(('mx_srv', dict(q=['a'], an=[('MX', 'a', ['b']), ('SRV', 'b', ['a'])], ns=[], ar=[('A', 'b', [])], opt=None)))
    sc.append(('opt_only', dict(q=[], an=[], ns=[], ar=[], opt=[])))
    sc.append(('opt_data', dict(q=['a'], an=[], ns=[], ar=[], opt=[3])))     # the message ends inside an EDNS option payload
    sc.append(('opt_and_ar', dict(q=['a'], an=[], ns=[], ar=[('A', 'a', []), ('TXT', 'b', [])], opt=[2, 0])))
    sc.append(('maxname', dict(q=['m'], an=[('NS', 'm', ['n'])], ns=[], ar=[], opt=None)))   # 255-octet names
    sc.append(('far', dict(q=['a'], an=[('NULLBIG', 'd', []), ('NS', 'b', ['c']), ('NS', 'c', ['b']), ('MX', 'b', ['b'])], ns=[], ar=[], opt=None)))
    # a name that STRADDLES offset 16383: owner 'b' = L0.L1.L2 starts at 16380, its labels L0/L1 begin at <= 16383, L2 at 16385;
    # the later name 'e' = L2 shares only the suffix that lies beyond 16383 and must therefore be written in full
    sc.append(('straddle', dict(q=[], an=[('NULL@16357', 'r', []), ('NS', 'b', ['e']), ('NS', 'e', ['a'])], ns=[], ar=[], opt=None)))
    # exact edge of the 14-bit offset: label L1 of owner 'b' begins at 16383 (the last offset a pointer can hold: the later name
    # 'a' = L1.L2 must be ONE pointer to it) resp. at 16384 (one too far: 'a' must be written in full)
    sc.append(('edge16383', dict(q=[], an=[('NULL@16358', 'r', []), ('NS', 'b', ['e']), ('NS', 'a', ['e'])], ns=[], ar=[], opt=None)))
    sc.append(('edge16384', dict(q=[], an=[('NULL@16359', 'r', []), ('NS', 'b', ['e']), ('NS', 'a', ['e'])], ns=[], ar=[], opt=None)))
    # the remaining single-name RFC 1035 / 1348 types (their compressed writers are macro-generated)
    sc.append(('mailbox_types', dict(q=['b'], an=[('MD', 'a', ['b']), ('MF', 'b', ['a']), ('NSAP_PTR', 'c', ['b'])],
                                     ns=[('MB', 'a', ['b']), ('MG', 'b', ['c']), ('MR', 'd', ['a'])], ar=[('A', 'b', [])], opt=None)))
    sc.append(('twin', dict(q=['a'], an=[('NS', 'f', ['a']), ('PTR', 'a', ['f'])], ns=[], ar=[], opt=None)))
    sc.append(('soa_minfo', dict(q=[], an=[('SOA', 'a', ['b', 'c'])], ns=[('MINFO', 'd', ['a', 'b'])], ar=[], opt=None)))
    if True:      # cheap enough for the quick tier as well
        sc.append(('rp_afsdb_rt', dict(q=['b'], an=[('RP', 'a', ['b', 'c']), ('AFSDB', 'b', ['a'])], ns=[('RouteThrough', 'c', ['b'])], ar=[], opt=None)))
        sc.append(('nocompress', dict(q=['a'], an=[('KX', 'a', ['b']), ('NAPTR', 'b', ['a']), ('RRSIG', 'c', ['b'])],
                                      ns=[('NSEC', 'a', ['b']), ('SVCB', 'b', ['a']), ('IPSECKEY', 'a', ['b'])], ar=[], opt=None)))
        sc.append(('cname_chain', dict(q=['b'], an=[('CNAME', 'b', ['a']), ('CNAME', 'a', ['d']), ('A', 'd', [])], ns=[], ar=[], opt=[0, 3])))
        sc.append(('hinfo_caa_null', dict(q=[], an=[('HINFO', 'a', []), ('CAA', 'b', []), ('NULL', 'c', [])], ns=[], ar=[('AAAA', 'a', [])], opt=None)))
    return [(n, dict(s, names=base_names)) for n, s in sc]


def tasks(tier, params):
    only = params.get('only')
    if only:
        return [(n, {'scenario': s, 'hdr': 'base'}) for n, s in scenarios(tier) if n in only]
    out = [(n, {'scenario': s, 'hdr': 'base'}) for n, s in scenarios(tier)]
    out.append(('hdr_codes', {'scenario': dict(q=[], an=[], ns=[], ar=[], opt=None, names={}), 'hdr': 'codes'}))
    out.append(('hdr_codes_opt', {'scenario': dict(q=[], an=[], ns=[], ar=[], opt=[], names={}), 'hdr': 'codes'}))
    return out


def fn_inherent(prog, ty, method):
    c = [f for t, f in prog.methods.get((ty, method), []) if t is None]
    if len(c) != 1:
        raise Unsupported("cannot resolve %s::%s" % (ty, method))
    return c[0]


class Builder:
    def __init__(self, prog, I, sc, hdr_mode):
        self.prog, self.I, self.sc = prog, I, sc
        self.g = VG.Gen(prog, I.ctx)
        g = self.g
        # shared label byte symbols: label id -> list of byte symbols (1 or 2 bytes each)
        self.lab = {}
        self.lab_len = {'L0': 1, 'L1': 2, 'L1b': 2, 'L2': 1, 'L3': 2, 'B63a': 63, 'B63b': 63, 'B63c': 63, 'B61': 61}
        self.entries = []       # for the walker: ('q'|'rr', ...)
        self.rust_q, self.rust_rr = [], {'an': [], 'ns': [], 'ar': []}
        self.cur_section = 'an'

    def label_bytes(self, lid):
        if lid not in self.lab:
            self.lab[lid] = [self.g.fresh('u8', lid) for _ in range(self.lab_len[lid])]
        return self.lab[lid]

    def name(self, nid):
        lids = self.sc['names'][nid]
        lbs = [self.label_bytes(l) for l in lids]
        v, wire = self.g.name(tuple(len(b) for b in lbs), 'n' + nid, label_bytes=lbs)
        return v, wire

    def rdata(self, tname, rd_names):
        g = self.g
        if tname in ('NULL', 'NULLBIG') or tname.startswith('NULL@'):
            n = 3 if tname == 'NULL' else (16400 if tname == 'NULLBIG' else int(tname[5:]))
            if tname == 'NULL':
                bs, cw = g.cow(3, 'nd')
            else:
                bs = [mk('u8', 0)] * n          # contents irrelevant: only its size matters (names land beyond 16383)
                cw = En('Cow', 'Borrowed', (SliceRef(Ref(Cell(Agg('array', bs), 'big')), mk('usize', 0), mk('usize', n)),))
            return En('RData', 'NULL', (mk('u16', 65280), g.struct('NULL', length=mk('u16', n), data=cw))), bs, 65280
        t = S.BY_NAME[tname]
        shape = {'names': [tuple(len(self.label_bytes(l)) for l in self.sc['names'][n]) for n in rd_names] or [(1,)],
                 'strs': [2, 0, 1], 'rest': 2, 'list': self.sc.get('svcb_list', [2]), 'gateway': 'Domain'}
        # names inside RDATA must reuse the shared label symbols: temporarily route Gen.name through self.name
        ids = list(rd_names)
        orig = g.name

        def shared(shape_, hint='n', label_bytes=None):
            if ids and label_bytes is None:
                nid = ids.pop(0)
                lbs = [self.label_bytes(l) for l in self.sc['names'][nid]]
                return orig(tuple(len(b) for b in lbs), 'n' + nid, label_bytes=lbs)
            return orig(shape_, hint, label_bytes)
        g.name = shared
        try:
            v, wire, assume = g.rdata(t, shape)
        finally:
            g.name = orig
        for a in assume:
            self.I.ctx.assume(a)
        return En('RData', tname, (v,)), wire, t.code

    def record(self, tname, owner, rd_names):
        g = self.g
        oname, owire = self.name(owner)
        o_rust = g.last_rust
        rd, rwire, code = self.rdata(tname, rd_names)
        rd_rust = g.last_rust
        ttl = g.fresh('u32', 'ttl')
        flush = g.fresh('bool', 'fl')
        if tname in ('NULL', 'NULLBIG') or tname.startswith('NULL@'):
            nd = rd.f[1].f[1].f[0]
            rdr = (lambda m, nd=nd: 'RData::NULL(65280, rdata::NULL::new(%s).unwrap())' % VG.rs_bytes(m, self.I.seq_list(nd))) if tname == 'NULL' else (lambda m, nd=nd: 'RData::NULL(65280, rdata::NULL::new(&[0u8; %d][..]).unwrap())' % len(self.I.seq_list(nd)))
        else:
            rdr = lambda m, rd_rust=rd_rust, tname=tname: 'RData::%s(%s)' % (tname, rd_rust(m))
        self.rust_rr[self.cur_section].append(
            lambda m, o_rust=o_rust, rdr=rdr, ttl=ttl, flush=flush:
            'ResourceRecord::new(%s, CLASS::IN, %s, %s).with_cache_flush(%s)' % (
                o_rust(m), VG.rs_int(m, ttl), rdr(m), 'true' if VG.ev(m, flush) else 'false'))
        rr = g.struct('ResourceRecord', name=oname, **{'class': En('CLASS', 'IN')}, ttl=ttl, rdata=rd, cache_flush=flush)
        self.entries.append(('rr', len(owire), code, len(rwire)))
        return rr

    def question(self, nid):
        g = self.g
        qn, w = self.name(nid)
        q_rust = g.last_rust
        uni = g.fresh('bool', 'uni')
        self.rust_q.append(lambda m, q_rust=q_rust, uni=uni: 'Question::new(%s, QTYPE::TYPE(TYPE::A), QCLASS::CLASS(CLASS::IN), %s)' % (
            q_rust(m), 'true' if VG.ev(m, uni) else 'false'))
        q = g.struct('Question', qname=qn, qtype=En('QTYPE', 'TYPE', (En('TYPE', 'A'),)),
                     qclass=En('QCLASS', 'CLASS', (En('CLASS', 'IN'),)), unicast_response=uni)
        self.entries.append(('q', len(w)))
        return q

    def packet(self, hdr_mode):
        g, I = self.g, self.I
        pid = g.fresh('u16', 'id')
        flags = g.fresh('u16', 'flags')
        I.ctx.assume((flags.z() & ~FLAG_BITS) == 0)
        if hdr_mode == 'codes':
            osel = g.fresh('u8', 'osel'); rsel = g.fresh('u8', 'rsel')
            I.ctx.assume(z3.ULT(osel.z(), len(OPCODES))); I.ctx.assume(z3.ULT(rsel.z(), len(RCODES)))
            oi = I.ctx.decide([osel.z() == i for i in range(len(OPCODES))])
            ri = I.ctx.decide([rsel.z() == i for i in range(len(RCODES))])
        else:
            oi, ri = 0, 0
        self.opcode, self.rcode = OPCODES[oi], RCODES[ri]
        opt = NONE
        self.opt_fields = None
        self.opt_rust = None
        if self.sc['opt'] is not None:
            ov, owire, _ = g.rdata(S.BY_NAME['OPT'], {'list': self.sc['opt']})
            self.opt_rust = g.last_rust
            opt = Some(ov)
            self.opt_fields = g.opt_fields
            self.opt_wire = owire
        self.ext_noopt = self.sc['opt'] is None and self.rcode[1] > 15
        # rcode > 15 without an OPT record: the upper bits have nowhere to go (documented); the output must still be a
        # well-framed message that parses (C04) - only the value comparison is skipped for these packets
        header = g.struct('Header', id=pid, opcode=En('OPCODE', self.opcode[0]), response_code=En('RCODE', self.rcode[0]),
                          z_flags=Agg('PacketFlag', (Agg('InternalBitFlags', (flags,)),)), opt=opt)
        self.pid, self.flags = pid, flags
        qs = [self.question(n) for n in self.sc['q']]
        self.cur_section = 'an'
        an = [self.record(*r) for r in self.sc['an']]
        self.cur_section = 'ns'
        ns = [self.record(*r) for r in self.sc['ns']]
        nopt_pos = len(self.entries)
        self.cur_section = 'ar'
        ar = [self.record(*r) for r in self.sc['ar']]
        if self.sc['opt'] is not None:
            self.entries.insert(nopt_pos, ('rr', 1, 41, len(self.opt_wire)))
        self.counts = (len(qs), len(an), len(ns), len(ar) + (1 if self.sc['opt'] is not None else 0))
        return g.struct('Packet', header=header, questions=VecV(qs), answers=VecV(an), name_servers=VecV(ns),
                        additional_records=VecV(ar))


RUST_PKT = r'''
use crate::dns::name::Label;
use crate::rdata::{self, RData};
use crate::{CharacterString, Name, Packet, PacketFlag, Question, ResourceRecord, CLASS, OPCODE, QCLASS, QTYPE, RCODE, TYPE};
use std::borrow::Cow;

#[test]
fn verif_case() {
    let r = std::panic::catch_unwind(|| {
        let mut fails: Vec<&str> = Vec::new();
        let mut p = Packet::new_query(%(id)s);
        p.set_flags(PacketFlag::from_bits_truncate(%(flags)s));
        *p.opcode_mut() = OPCODE::%(opcode)s;
        *p.rcode_mut() = RCODE::%(rcode)s;
        %(opt)s
        %(pushes)s
        let plain = match p.build_bytes_vec() { Ok(b) => b, Err(_) => { return vec!["build"]; } };
        let comp = match p.build_bytes_vec_compressed() { Ok(b) => b, Err(_) => { return vec!["build"]; } };
        let counts = [p.questions.len(), p.answers.len(), p.name_servers.len(),
                      p.additional_records.len() + usize::from(p.opt().is_some())];
        for k in 0..4 {
            if u16::from_be_bytes([plain[4 + 2 * k], plain[5 + 2 * k]]) as usize != counts[k] { fails.push("frame"); }
        }
        if comp.len() > plain.len() { fails.push("comp-len"); }
        let shown = format!("{:?}", p);
        match Packet::parse(&plain) {
            Ok(p2) => {
                if format!("{:?}", p2) != shown { fails.push("plain-eq"); }
                match Packet::parse(&comp) {
                    Ok(p3) => if format!("{:?}", p3) != format!("{:?}", p2) { fails.push("comp-eq"); },
                    Err(_) => fails.push("comp-parse"),
                }
            }
            Err(_) => fails.push("plain-parse"),
        }
        fails
    });
    match r {
        Ok(f) => println!("REPLAY-RESULT {{\"outcome\":\"ok\",\"fails\":[{}]}}", f.iter().map(|s| format!("\"{}\"", s)).collect::<Vec<_>>().join(",")),
        Err(_) => println!("REPLAY-RESULT {{\"outcome\":\"panic\"}}"),
    }
}
'''


def rust_packet(b, m):
    pushes = []
    for f in b.rust_q:
        pushes.append('p.questions.push(%s);' % f(m))
    for sec, field in (('an', 'answers'), ('ns', 'name_servers'), ('ar', 'additional_records')):
        for f in b.rust_rr[sec]:
            pushes.append('p.%s.push(%s);' % (field, f(m)))
    opt = '*p.opt_mut() = Some(%s);' % b.opt_rust(m) if b.opt_rust else ''
    return RUST_PKT % {'id': VG.ev(m, b.pid), 'flags': VG.ev(m, b.flags), 'opcode': b.opcode[0], 'rcode': b.rcode[0],
                       'opt': opt, 'pushes': '\n        '.join(pushes)}


def walk_plain(res, bytes_, b):
    """independent envelope walker over the plain (uncompressed) output.  Structure octets are concrete on the path
    (shapes are concrete), values are symbolic: returns a list of z3 Bools that must all hold, or a string on a
    structural mismatch."""
    n = len(bytes_)
    must = []
    if n < 12:
        return 'output shorter than a header'

    def be16(i):
        return z3.Concat(bytes_[i].z(), bytes_[i + 1].z())

    def conc(i):
        v = bytes_[i]
        if not v.concrete:
            raise Unsupported("structure octet %d is symbolic" % i)
        return v.e
    must.append(be16(0) == b.pid.z())
    word = b.flags.z() | z3.BitVecVal((b.opcode[1] << 11) | (b.rcode[1] & 0xF), 16)
    must.append(be16(2) == word)
    for k in range(4):
        must.append(be16(4 + 2 * k) == b.counts[k])
    pos = 12

    def skip_name(pos):
        while True:
            if pos >= n:
                return None
            l = conc(pos)
            if l == 0:
                return pos + 1
            if l & 0xC0:
                return None          # plain output must not contain pointers / reserved label types
            pos += 1 + l
    for e in b.entries:
        p2 = skip_name(pos)
        if p2 is None:
            return 'walker: malformed name at %d' % pos
        if e[0] == 'q':
            if p2 - pos != e[1]:
                return 'walker: question name length %d != %d' % (p2 - pos, e[1])
            pos = p2 + 4
        else:
            if p2 - pos != e[1]:
                return 'walker: owner name length %d != %d' % (p2 - pos, e[1])
            if p2 + 10 > n:
                return 'walker: record header runs past the end'
            must.append(be16(p2) == e[2])
            rdlen = (conc(p2 + 8) << 8) | conc(p2 + 9)
            if rdlen != e[3]:
                return 'walker: RDLENGTH %d but %d RDATA bytes expected' % (rdlen, e[3])
            pos = p2 + 10 + rdlen
        if pos > n:
            return 'walker: entry runs past the end of output'
    if pos != n:
        return 'walker: %d trailing bytes after the last entry' % (n - pos)
    return must


def run_task(prog, tid, params, tier):
    sc, hdr_mode = params['scenario'], params['hdr']
    f_plain = fn_inherent(prog, 'Packet', 'build_bytes_vec')
    f_comp = fn_inherent(prog, 'Packet', 'build_bytes_vec_compressed')
    f_parse = fn_inherent(prog, 'Packet', 'parse')
    stats = {}
    okp = [0]

    def run(I):
        b = Builder(prog, I, sc, hdr_mode)
        I.b = b
        p = b.packet(hdr_mode)
        I.pkt = p
        pref = I.new_ref(p, 'pkt')
        plain = I.call_function(f_plain, [pref], {})
        comp = I.call_function(f_comp, [pref], {})
        out = {'plain': plain, 'comp': comp}
        if plain.var == 'Ok':
            pb = list(plain.f[0].items)
            out['p2'] = I.call_function(f_parse, [X.byte_buffer(I, pb, 'plain')], {})
        if comp.var == 'Ok':
            cb = list(comp.f[0].items)
            out['p3'] = I.call_function(f_parse, [X.byte_buffer(I, cb, 'comp')], {})
        return out

    def on_path(res):
        I = res.interp

        def viol(role, what):
            m = res.ctx.model()
            cex = {'scenario': tid}
            if hasattr(I, 'b') and hasattr(I.b, 'pid'):
                try:
                    cex.update({'entry': 'rust_test', 'code': rust_packet(I.b, m), 'expect': {'any_failure': True}})
                except Exception as e:      # noqa
                    cex['code_error'] = repr(e)
            return {'status': 'violation', 'role': role, 'detail': 'scenario %s: %s' % (tid, what), 'cex': cex}
        if res.kind == 'panic':
            return viol('panic', 'panic: ' + res.msg)
        if res.kind != 'return':
            return None
        o = res.value
        b = I.b
        if o['plain'].var != 'Ok' or o['comp'].var != 'Ok':
            return viol('build', 'build_bytes_vec(_compressed) returned Err for a valid packet')
        pb = list(o['plain'].f[0].items)
        cb = list(o['comp'].f[0].items)
        w = walk_plain(res, pb, b)
        if isinstance(w, str):
            return viol('frame', w)
        if res.ctx.check(z3.Not(z3.And(w))):
            return viol('frame', 'header id/flags/counts or a TYPE field differ from what was built')
        if len(cb) > len(pb):
            return viol('comp-len', 'compressed output is longer than the plain output')
        if o['p2'].var != 'Ok':
            return viol('plain-parse', 'the plain serialisation is rejected by Packet::parse')
        if o['p3'].var != 'Ok':
            return viol('comp-parse', 'the compressed serialisation is rejected by Packet::parse')
        p2, p3 = o['p2'].f[0], o['p3'].f[0]
        if b.ext_noopt:
            okp[0] += 1
            return None
        if res.ctx.check(z3.Not(deep_eq(I, p2, I.pkt))):
            return viol('plain-eq', 'parse(build(p)) differs from p')
        if res.ctx.check(z3.Not(deep_eq(I, p3, p2))):
            return viol('comp-eq', 'parse(compressed) differs from parse(plain)')
        okp[0] += 1
        return None

    v = X.explore(prog, run, on_path, loop_bound=400, stats=stats, timeout_ms=60000, max_paths=20000)
    out = {'paths': stats.get('paths', 0), 'queries': stats.get('queries', 0), 'solver_s': stats.get('solver_s', 0.0),
           'outcomes': stats.get('outcomes', {}), 'functions': stats.get('functions', set()),
           'covers': {'roundtrips': okp[0]}, 'covers_witnessed': 1 if okp[0] else 0}
    if v is not None:
        out.update(v)
    elif 'truncated' in stats or stats.get('outcomes', {}).get('bound'):
        out['status'] = 'inconclusive'
        out['detail'] = 'truncated/bound: %r' % (stats.get('outcomes'),)
    elif not okp[0]:
        out['status'] = 'inconclusive'
        out['detail'] = 'vacuous: no path completed the round trip'
    return out
