"""Inductive one-step check of the Name::parse loop (C01.name.step, C06.contract).

Execution starts AT THE LOOP HEAD with every live local a fresh symbol constrained by the invariant Inv, the
buffer an SMT array of symbolic length <= 65535.  Discharged:
  base : function entry            => Inv at first arrival at the loop head
  step : Inv /\ one iteration      => no panic /\ Inv' at the back-edge /\ variant (318 - name_size, pointer_position)
                                       decreases lexicographically
  exit : Inv /\ exit               => contract: Ok => pos0 < pos' <= len ; Err => pos0 <= pos' <= max(pos0, len)
Together: for every buffer length and any number of iterations Name::parse neither panics nor loops forever and
satisfies the contract that the Kani harnesses assume for their stub (kani/util.rs name_parse_stub)."""
import z3
from ..values import *
from .. import explore as X
from ..engine import Frame

CRATE = 'simple-dns'
MAXLEN = 65535
NS_MAX = 318


def tasks(tier, params):
    return [('base', {'part': 'base'}), ('step', {'part': 'step'})]


def find_loop_head(f):
    """the unique target of a back edge in the (non-cleanup) CFG"""
    blocks = f.blocks
    succ = {}
    for bb, (st, t) in blocks.items():
        s = []
        if t.kind == 'goto':
            s = [t.a]
        elif t.kind == 'switch':
            s = [x for _, x in t.b] + ([t.c] if t.c else [])
        elif t.kind == 'call':
            s = [t.d] if t.d else []
        elif t.kind == 'assert':
            s = [t.d]
        elif t.kind == 'drop':
            s = [t.b] if t.b else []
        succ[bb] = s
    heads = set()
    color = {}
    stack = [('bb0', iter(succ['bb0']))]
    color['bb0'] = 1
    while stack:
        bb, it = stack[-1]
        nxt = next(it, None)
        if nxt is None:
            color[bb] = 2
            stack.pop()
            continue
        c = color.get(nxt, 0)
        if c == 1:
            heads.add(nxt)
        elif c == 0:
            color[nxt] = 1
            stack.append((nxt, iter(succ[nxt])))
    if len(heads) != 1:
        raise Unsupported("expected exactly one loop head, found %r" % (heads,))
    return heads.pop()


def local_of(f, dbg):
    l = f.debug.get(dbg)
    if l is None or not l.startswith('_'):
        raise Unsupported("debug name %s not found in Name::parse" % dbg)
    return l


def inv(pos, pp, ns, following, pos0, ln):
    """Inv over z3 terms"""
    main = z3.And(z3.ULE(pos, ln), z3.ULE(pp, ln), z3.ULE(ns, NS_MAX), z3.ULE(pos0, pos),
                  z3.Implies(z3.Not(following), pos == pp))
    entry_oob = z3.And(z3.UGT(pos, ln), pos == pos0, pp == pos, z3.Not(following), ns == 0)
    return z3.Or(main, entry_oob)


def run_task(prog, tid, params, tier):
    f = prog.methods[('Name', 'parse')][0][1]
    head = find_loop_head(f)
    L = {k: local_of(f, k) for k in ('data', 'position', 'following_compression_pointer', 'labels',
                                      'pointer_position', 'name_size')}
    stats = {}
    arr = z3.Array('buf', z3.BitVecSort(64), z3.BitVecSort(8))
    ln = sym('len', 'usize')
    pos0 = sym('pos0', 'usize')
    failures = []
    counts = {'backedge': 0, 'ok': 0, 'err': 0, 'checked': 0}

    def data_ref():
        return SliceRef(Ref(Cell(ArrBuf(arr, ln), 'buf')), mk('usize', 0), ln)

    def state_terms(fr, poscell):
        g = lambda k: fr.cells[L[k]].v
        return (poscell.v.z(), g('pointer_position').z(), g('name_size').z(),
                zbool(g('following_compression_pointer')))

    def require(res, name, cond):
        counts['checked'] += 1
        if res.ctx.check(z3.Not(cond)):
            m = res.ctx.solver.model()
            failures.append((name, str(m)[:600]))
            return True
        return False

    if params['part'] == 'base':
        def run(I):
            I.ctx.assume(z3.ULE(ln.z(), MAXLEN))
            I.poscell = Cell(pos0, 'pos')
            I.stop_at = (f, head)
            fr = Frame(f, {})
            fr.cells['_1'] = Cell(data_ref(), '_1')
            fr.cells['_2'] = Cell(Ref(I.poscell), '_2')
            # arrive at the loop head for the first time: visits start at 0, stop on first entry
            fr.visits[head] = 1
            return I.run(fr, 'bb0')

        def on_path(res):
            if res.kind == 'backedge':
                counts['backedge'] += 1
                pos, pp, ns, fol = state_terms(res.value, res.interp.poscell)
                require(res, 'base: Inv at first arrival', inv(pos, pp, ns, fol, pos0.z(), ln.z()))
            elif res.kind == 'panic':
                failures.append(('base: panic before the loop: ' + res.msg, ''))
            return None
    else:
        pre = {}

        def run(I):
            c = I.ctx
            pos = sym('pos', 'usize'); pp = sym('pp', 'usize'); ns = sym('ns', 'usize')
            fol = sym('following', 'bool')
            pre.update(pos=pos, pp=pp, ns=ns, fol=fol)
            c.assume(z3.ULE(ln.z(), MAXLEN))
            c.assume(inv(pos.z(), pp.z(), ns.z(), fol.z(), pos0.z(), ln.z()))
            I.poscell = Cell(pos, 'pos')
            I.stop_at = (f, head)
            fr = Frame(f, {})
            fr.cells['_1'] = Cell(data_ref(), '_1')
            fr.cells['_2'] = Cell(Ref(I.poscell), '_2')
            fr.cells[L['following_compression_pointer']] = Cell(fol)
            fr.cells[L['labels']] = Cell(VecV(()))
            fr.cells[L['pointer_position']] = Cell(pp)
            fr.cells[L['name_size']] = Cell(ns)
            I.frame0 = fr
            return I.run(fr, head)

        def on_path(res):
            I = res.interp
            lz, p0 = ln.z(), pos0.z()
            if res.kind == 'panic':
                m = res.ctx.model()
                failures.append(('step: panic ' + res.msg, str(m)[:600]))
                return None
            if res.kind == 'backedge':
                counts['backedge'] += 1
                pos, pp, ns, fol = state_terms(res.value, I.poscell)
                require(res, 'step: Inv re-established', inv(pos, pp, ns, fol, p0, lz))
                ns0, pp0 = pre['ns'].z(), pre['pp'].z()
                dec = z3.Or(z3.UGT(ns, ns0), z3.And(ns == ns0, z3.ULT(pp, pp0)))
                require(res, 'step: variant (318-name_size, pointer_position) decreases', dec)
                # labels only grow by at most one entry per iteration (allocation bound)
                nl = len(res.value.cells[L['labels']].v.items)
                if nl > 1:
                    failures.append(('step: more than one label pushed per iteration', ''))
                return None
            if res.kind == 'return':
                r = res.value
                pos = I.poscell.v.z()
                if r.var == 'Ok':
                    counts['ok'] += 1
                    require(res, 'exit Ok: pos0 < pos\' <= len', z3.And(z3.UGT(pos, p0), z3.ULE(pos, lz)))
                else:
                    counts['err'] += 1
                    require(res, 'exit Err: pos0 <= pos\' <= max(pos0,len)',
                            z3.And(z3.UGE(pos, p0), z3.Or(z3.ULE(pos, lz), pos == p0)))
            return None

    X.explore(prog, run, on_path, loop_bound=4, stats=stats, timeout_ms=60000)
    out = {'paths': stats.get('paths', 0), 'queries': stats.get('queries', 0), 'solver_s': stats.get('solver_s', 0.0),
           'outcomes': stats.get('outcomes', {}), 'functions': stats.get('functions', set()),
           'covers': dict(counts), 'covers_witnessed': sum(1 for k in ('backedge', 'ok', 'err') if counts[k])}
    if failures:
        # an inductive counter-example is a candidate only: the bounded obligations (name_parse) are the ones
        # that report replayable violations; here the step simply does not go through.
        out['status'] = 'inconclusive'
        out['detail'] = 'inductive step not discharged (invariant too weak or real defect): %r' % (failures[:3],)
        return out
    need = ('backedge',) if params['part'] == 'base' else ('backedge', 'ok', 'err')
    if not all(counts[k] for k in need):
        out['status'] = 'inconclusive'
        out['detail'] = 'vacuous: %r' % (counts,)
    return out
