"""Writer entry points and emitted compression pointers (C04.writers, C07):

 writers : Packet::write_to / write_compressed_to into (a) a growable Cursor<Vec<u8>> positioned at origin k in {0,2,5}
           over storage pre-filled with k + extra bytes, (b) a fixed Cursor<&mut [u8]> / &mut [u8] of every capacity
           n-3..n+2: the bytes in [k, k+n) equal the build_bytes_vec(_compressed) bytes, nothing else is touched, a too
           small writer yields Err (no panic, no silent truncation)
 pointers: an independent schema-aware walker over the compressed output locates every name: each compression pointer
           is an offset from the first byte of the message, strictly backwards, <= 16383 and lands on the start of a
           label (or pointer) of an earlier-written name; RDATA names of SRV/NAPTR/KX/RRSIG/NSEC/IPSECKEY/SVCB are in
           full; a repeated question / owner / RFC 1035 RDATA name is exactly one 2-byte pointer."""
import z3
from ..values import *
from .. import explore as X
from . import valuegen as VG
from .valuegen import S
from .packet_rt import Builder, scenarios, fn_inherent, rust_packet

CRATE = 'simple-dns'
NO_COMPRESS = {'SRV', 'NAPTR', 'KX', 'RRSIG', 'NSEC', 'IPSECKEY', 'SVCB', 'HTTPS'}


NATIVE_BYTES = r'''
        let comp = match p.build_bytes_vec_compressed() { Ok(b) => b, Err(_) => { return ("build".to_string(), 0u8); } };
        (comp.iter().map(|b| format!("{:02x}", b)).collect::<String>(), 0u8)
    });
    match r {
        Ok((hex, _)) => println!("REPLAY-RESULT {{\"outcome\":\"ok\",\"bytes_hex\":\"{}\"}}", hex),
        Err(_) => println!("REPLAY-RESULT {{\"outcome\":\"panic\"}}"),
    }
}
'''

NATIVE_WRITERS = r'''
        use std::io::Cursor;
        let plain = match p.build_bytes_vec() { Ok(b) => b, Err(_) => { return vec!["build"]; } };
        let comp = match p.build_bytes_vec_compressed() { Ok(b) => b, Err(_) => { return vec!["build"]; } };
        for (want, compressed) in [(&plain, false), (&comp, true)] {
            let n = want.len();
            for (k, extra) in [(0usize, 0usize), (2, 0), (5, n + 7), (0, n + 3)] {
                let pre = vec![0xEEu8; k + extra];
                let mut cur = Cursor::new(pre.clone());
                cur.set_position(k as u64);
                let r = if compressed { p.write_compressed_to(&mut cur) } else { p.write_to(&mut cur) };
                let after = cur.into_inner();
                if r.is_err() { fails.push("writers.err"); continue; }
                if after.len() != pre.len().max(k + n) { fails.push("writers.extra"); continue; }
                if after[k..k + n] != want[..] || after[..k] != pre[..k] || after[k + n..] != pre[(k + n).min(pre.len())..] { fails.push("writers.bytes"); }
            }
            for c in [n.saturating_sub(3), n.saturating_sub(2), n - 1, n, n + 2] {
                let mut store = vec![0xEEu8; c];
                let r = {
                    let mut cur = Cursor::new(&mut store[..]);
                    if compressed { p.write_compressed_to(&mut cur) } else { p.write_to(&mut cur) }
                };
                if c >= n {
                    if r.is_err() { fails.push("writers.err"); } else if store[..n] != want[..] || store[n..].iter().any(|b| *b != 0xEE) { fails.push("writers.bytes"); }
                } else if r.is_ok() { fails.push("writers.truncated"); }
                if !compressed {
                    let mut store2 = vec![0xEEu8; c];
                    let r2 = { let mut w: &mut [u8] = &mut store2[..]; p.write_to(&mut w) };
                    if c >= n { if r2.is_err() || store2[..n] != want[..] { fails.push("writers.bytes"); } } else if r2.is_ok() { fails.push("writers.truncated"); }
                }
            }
        }
        fails
    });
    match r {
        Ok(f) => println!("REPLAY-RESULT {{\"outcome\":\"ok\",\"fails\":[{}]}}", f.iter().map(|s| format!("\"{}\"", s)).collect::<Vec<_>>().join(",")),
        Err(_) => println!("REPLAY-RESULT {{\"outcome\":\"panic\"}}"),
    }
}
'''


def tasks(tier, params):
    part = params.get('part')
    out = []
    names = ['q2_shared', 'an_ns_ptr', 'mx_srv', 'opt_and_ar', 'opt_only', 'opt_data', 'soa_minfo'] + (['rp_afsdb_rt', 'nocompress', 'cname_chain'] if tier == 'thorough' else [])
    ptr_only = ['straddle', 'far', 'edge16383', 'edge16384']
    scs = dict(scenarios(tier))
    for n in names:
        if n not in scs:
            continue
        if part in (None, 'writers'):
            out.append(('writers.' + n, {'part': 'writers', 'scenario': scs[n]}))
        if part in (None, 'pointers'):
            out.append(('pointers.' + n, {'part': 'pointers', 'scenario': scs[n]}))
    for n in ptr_only:
        if part in (None, 'pointers') and n in scs:
            out.append(('pointers.' + n, {'part': 'pointers', 'scenario': scs[n]}))
    if part in (None, 'pointers') and tier != 'thorough':
        # the must-not-compress types are checked in both tiers
        base = scs['q1']['names']
        out.append(('pointers.nocompress', {'part': 'pointers', 'scenario': dict(
            q=['a'], an=[('SRV', 'a', ['a']), ('KX', 'b', ['a']), ('NAPTR', 'c', ['b'])],
            ns=[('RRSIG', 'a', ['a']), ('NSEC', 'b', ['b']), ('SVCB', 'a', ['a']), ('IPSECKEY', 'b', ['a'])], ar=[], opt=None, names=base)}))
        # SVCB / HTTPS without parameters (AliasMode when the symbolic priority is 0): the target is still written in full
        out.append(('pointers.nocompress0', {'part': 'pointers', 'scenario': dict(
            q=['a'], an=[('SVCB', 'a', ['a']), ('HTTPS', 'b', ['a'])], ns=[('HTTPS', 'a', ['b'])], ar=[], opt=None, names=base, svcb_list=[])}))
    return out


def run_task(prog, tid, params, tier):
    sc, part = params['scenario'], params['part']
    f_plain = fn_inherent(prog, 'Packet', 'build_bytes_vec')
    f_comp = fn_inherent(prog, 'Packet', 'build_bytes_vec_compressed')
    f_wto = fn_inherent(prog, 'Packet', 'write_to')
    f_wcomp = fn_inherent(prog, 'Packet', 'write_compressed_to')
    stats = {}
    okp = [0]

    def viol(res, role, what, out_bytes=None):
        I = res.interp
        m = res.ctx.model()
        cex = {'scenario': tid}
        try:
            base = rust_packet(I.b, m)
            k = base.index('let plain = match')
            head = base[:k]
            if out_bytes is not None:
                # pointer walker verdicts: the real build must emit exactly the bytes the walker looked at
                hexs = ''.join('%02x' % VG.ev(m, b) for b in out_bytes)
                tail = NATIVE_BYTES
                cex.update({'entry': 'rust_test', 'code': head + tail, 'expect': {'equals': {'outcome': 'ok', 'bytes_hex': hexs}}})
            else:
                cex.update({'entry': 'rust_test', 'code': head + NATIVE_WRITERS, 'expect': {'any_failure': True}})
        except Exception as e:      # noqa
            cex['code_error'] = repr(e)
        return {'status': 'violation', 'role': role, 'detail': '%s: %s' % (tid, what), 'cex': cex}

    if part == 'writers':
        def run(I):
            b = Builder(prog, I, sc, 'base')
            I.b = b
            p = b.packet('base')
            pref = I.new_ref(p, 'pkt')
            plain = I.call_function(f_plain, [pref], {})
            comp = I.call_function(f_comp, [pref], {})
            if plain.var != 'Ok' or comp.var != 'Ok':
                raise Unsupported("reference serialisation failed")
            ref = {'plain': list(plain.f[0].items), 'comp': list(comp.f[0].items)}
            results = []
            g = b.g
            for mode, f, subst in (('plain', f_wto, None), ('comp', f_wcomp, None)):
                n = len(ref[mode])
                # (a) growable cursor at origin k over pre-filled storage
                for k, extra in ((0, 0), (2, 0), (5, n + 7), (0, n + 3)):
                    pre = [g.fresh('u8', 'pre') for _ in range(k + extra)]
                    cur = Cell(CursorV(VecV(pre), mk('u64', k)), 'cursor')
                    r = I.call_function(f, [pref, Ref(cur)], {'T': 'std::io::Cursor<Vec<u8>>'})
                    results.append((mode, 'cursor', k, pre, r, list(cur.v.inner.items), None))
                # (b) fixed-size writers of capacity c
                for c in (max(0, n - 3), max(0, n - 2), n - 1, n, n + 2):
                    store = [g.fresh('u8', 'st') for _ in range(c)]
                    cell = Cell(Agg('array', store), 'fixed')
                    sl = SliceRef(Ref(cell), mk('usize', 0), mk('usize', c))
                    cur = Cell(CursorV(sl, mk('u64', 0)), 'fcursor')
                    r = I.call_function(f, [pref, Ref(cur)], {'T': 'std::io::Cursor<&mut [u8]>'})
                    results.append((mode, 'fixed-cursor', c, store, r, list(cell.v.f), None))
                    if mode == 'plain':
                        cell2 = Cell(Agg('array', store), 'fixed2')
                        w = Cell(SliceRef(Ref(cell2), mk('usize', 0), mk('usize', c)), 'slicew')
                        r2 = I.call_function(f, [pref, Ref(w)], {'T': '&mut [u8]'})
                        results.append((mode, 'slice', c, store, r2, list(cell2.v.f), None))
            I.ref = ref
            return results

        def on_path(res):
            I = res.interp
            if res.kind == 'panic':
                return viol(res, 'panic', 'a writer entry point panics: ' + res.msg)
            if res.kind != 'return':
                return None
            for mode, kind, k, pre, r, after, _ in res.value:
                want = I.ref[mode]
                n = len(want)
                if kind == 'cursor':
                    if r.var != 'Ok':
                        return viol(res, 'writers.err', '%s into a growable cursor at origin %d returns Err' % (mode, k))
                    if len(after) < k + n:
                        return viol(res, 'writers.short', '%s at origin %d: output shorter than the message' % (mode, k))
                    diff = [a.z() != w.z() for a, w in zip(after[k:k + n], want)]
                    diff += [a.z() != p.z() for a, p in zip(after[:k], pre[:k])]
                    diff += [a.z() != p.z() for a, p in zip(after[k + n:], pre[k + n:])]
                    if len(after) != max(len(pre), k + n):
                        return viol(res, 'writers.extra', '%s at origin %d over %d pre-filled bytes: storage length %d' % (mode, k, len(pre), len(after)))
                    if diff and res.ctx.check(z3.Or(diff)):
                        return viol(res, 'writers.bytes', '%s at origin %d over %d pre-filled bytes: bytes differ from build_bytes_vec%s or '
                                    'bytes outside the message were touched' % (mode, k, len(pre), '_compressed' if mode == 'comp' else ''))
                else:
                    c = k
                    if c >= n:
                        if r.var != 'Ok':
                            return viol(res, 'writers.err', '%s into a %s of sufficient capacity returns Err' % (mode, kind))
                        diff = [a.z() != w.z() for a, w in zip(after[:n], want)] + [a.z() != p.z() for a, p in zip(after[n:], pre[n:])]
                        if diff and res.ctx.check(z3.Or(diff)):
                            return viol(res, 'writers.bytes', '%s into a %s of capacity %d: bytes differ' % (mode, kind, c))
                    else:
                        if r.var != 'Err':
                            return viol(res, 'writers.truncated', '%s into a %s of capacity %d (< %d) reports Ok' % (mode, kind, c, n))
            okp[0] += 1
            return None
        v = X.explore(prog, run, on_path, loop_bound=400, stats=stats, timeout_ms=60000, max_paths=20000)
    else:
        def run(I):
            b = Builder(prog, I, sc, 'base')
            I.b = b
            p = b.packet('base')
            pref = I.new_ref(p, 'pkt')
            comp = I.call_function(f_comp, [pref], {})
            plain = I.call_function(f_plain, [pref], {})
            return comp, plain

        def on_path(res):
            I = res.interp
            if res.kind == 'panic':
                return viol(res, 'panic', 'build_bytes_vec_compressed panics: ' + res.msg)
            if res.kind != 'return':
                return None
            comp, plain = res.value
            if comp.var != 'Ok':
                return viol(res, 'build', 'build_bytes_vec_compressed returns Err')
            bs = list(comp.f[0].items)
            msg = walk_compressed(res, I, bs, sc)
            if msg:
                return viol(res, msg[0], msg[1], out_bytes=bs)
            okp[0] += 1
            return None
        v = X.explore(prog, run, on_path, loop_bound=400, stats=stats, timeout_ms=60000, max_paths=20000)

    out = {'paths': stats.get('paths', 0), 'queries': stats.get('queries', 0), 'solver_s': stats.get('solver_s', 0.0),
           'outcomes': stats.get('outcomes', {}), 'functions': stats.get('functions', set()),
           'covers': {'complete': okp[0]}, 'covers_witnessed': 1 if okp[0] else 0}
    if v is not None:
        out.update(v)
    elif 'truncated' in stats or stats.get('outcomes', {}).get('bound'):
        out['status'] = 'inconclusive'
        out['detail'] = 'truncated/bound'
    elif not okp[0]:
        out['status'] = 'inconclusive'
        out['detail'] = 'vacuous'
    return out


# ------------------------------------------------------------------------------- pointer walker
def walk_compressed(res, I, bs, sc):
    """returns None or (role, message).  Structure octets of the compressed output are concrete on the path."""
    n = len(bs)

    def conc(i):
        if i >= n:
            raise IndexError
        v = bs[i]
        if not v.concrete:
            raise Unsupported("structure octet %d is symbolic" % i)
        return v.e
    starts = set()         # offsets at which a label or pointer of an already written name begins
    seen = []              # (labels as list of z3 byte lists, compressible position?) of names written so far

    def read_name(pos, allow_ptr):
        """-> (end position, expanded labels [[z3 bytes]], used_pointer, in-place length)"""
        labels = []
        p = pos
        used = False
        here = []
        while True:
            l = conc(p)
            if l == 0:
                here.append(p)
                end = p + 1
                break
            if l & 0xC0 == 0xC0:
                tgt = ((l & 0x3F) << 8) | conc(p + 1)
                if not allow_ptr:
                    return ('mustnot', 'a name that must not be compressed contains a pointer at offset %d' % p)
                if tgt >= p:
                    return ('ptr-forward', 'pointer at %d does not point strictly backwards (target %d)' % (p, tgt))
                if tgt > 16383:
                    return ('ptr-range', 'pointer target %d exceeds 16383' % tgt)
                if tgt not in starts:
                    return ('ptr-target', 'pointer at %d targets %d which is not the start of a label of an earlier name '
                            '(pointers must be relative to the first byte of the message)' % (p, tgt))
                here.append(p)
                end = p + 2
                used = True
                # expand for equality bookkeeping
                q = tgt
                hops = 0
                while True:
                    hops += 1
                    if hops > 64:
                        return ('ptr-loop', 'pointer chain too long')
                    l2 = conc(q)
                    if l2 == 0:
                        break
                    if l2 & 0xC0 == 0xC0:
                        q = ((l2 & 0x3F) << 8) | conc(q + 1)
                        continue
                    labels.append([b.z() for b in bs[q + 1:q + 1 + l2]])
                    q += 1 + l2
                break
            if l & 0xC0:
                return ('label-type', 'reserved label type at %d' % p)
            here.append(p)
            labels.append([b.z() for b in bs[p + 1:p + 1 + l]])
            p += 1 + l
        return end, labels, used, here

    def names_equal(a, b):
        if len(a) != len(b) or any(len(x) != len(y) for x, y in zip(a, b)):
            return z3.BoolVal(False)
        return z3.And([z3.BoolVal(True)] + [u == v for x, y in zip(a, b) for u, v in zip(x, y)])

    def visit(pos, compressible, what):
        r = read_name(pos, compressible)
        if isinstance(r[0], str):
            return r
        end, labels, used, here = r
        if compressible and labels:
            # a name equal to an earlier name written at a compressible position (<= 16383) must be one 2-byte pointer
            for prev, prev_pos in seen:
                if prev_pos <= 16383 and len(prev) == len(labels):
                    eq = names_equal(prev, labels)
                    if not z3.is_false(z3.simplify(eq)) and not res.ctx.check(z3.Not(eq)):
                        if end - pos != 2:
                            return ('must', '%s at offset %d repeats an earlier name but takes %d bytes instead of a 2-byte pointer'
                                    % (what, pos, end - pos))
                        break
        if compressible:
            for h in here[:-1] if not used else here[:-1]:
                starts.add(h)
            if used:
                pass
            seen.append((labels, pos))
            # label starts written in place (not the pointer itself, not the root octet)
            for h in here:
                if conc(h) != 0 and conc(h) & 0xC0 == 0:
                    starts.add(h)
        return end
    try:
        pos = 12
        for nid in sc['q']:
            r = visit(pos, True, 'question name')
            if isinstance(r, tuple):
                return r
            pos = r + 4
        order = [('an', x) for x in sc['an']] + [('ns', x) for x in sc['ns']]
        if sc['opt'] is not None:
            order.append(('opt', None))
        order += [('ar', x) for x in sc['ar']]
        for sec, recd in order:
            if sec == 'opt':
                if conc(pos) != 0:
                    return ('opt', 'OPT owner is not the root name')
                rdlen = (conc(pos + 9) << 8) | conc(pos + 10)
                pos = pos + 11 + rdlen
                continue
            tname = recd[0]
            r = visit(pos, True, 'owner name')
            if isinstance(r, tuple):
                return r
            rd_start = r + 10
            rdlen = (conc(r + 8) << 8) | conc(r + 9)
            if tname not in ('NULL', 'NULLBIG', 'A', 'AAAA', 'TXT', 'HINFO', 'CAA') and not tname.startswith('NULL@'):
                t = S.BY_NAME[tname]
                p = rd_start
                fields = t.fields if not t.wrapper else ([('p', 'u16'), ('n', 'name')] if t.wrapper == 'SVCB' else [('n', 'name')])
                if t.special:
                    fields = {'NSEC': [('n', 'name')], 'SVCB': [('p', 'u16'), ('n', 'name')],
                              'IPSECKEY': [('a', 'u8'), ('b', 'u8'), ('c', 'u8'), ('n', 'name')]}.get(tname, [])
                for fname, kind in fields:
                    if kind in VG.S.WIDTH:
                        p += VG.S.WIDTH[kind]
                    elif kind == 'cstr':
                        p += 1 + conc(p)
                    elif kind == 'name':
                        r2 = visit(p, tname not in NO_COMPRESS, '%s RDATA name' % tname)
                        if isinstance(r2, tuple):
                            return r2
                        p = r2
                    elif kind == 'rest':
                        break
            pos = rd_start + rdlen
        if pos != n:
            return ('frame', 'walker ends at %d but the output has %d bytes' % (pos, n))
    except IndexError:
        return ('frame', 'walker ran past the end of the compressed output')
    return None
