"""C19: TXT text and attribute conversions are lossless.
 chunk : String::try_from(TXT::try_from(s)) == s and every piece fits a 255-byte character-string, for strings of n bytes with
         every byte symbolic (UTF-8 validity assumed, so multi-byte characters straddle the 254/255 boundaries)
 attr  : attribute maps (<= 2 entries; keys without '='; value absent / empty / non-empty) -> TXT::try_from(map) -> attributes()
         returns the same map; duplicate keys in a TXT: first occurrence wins
 long  : TXT holding a text of <= 3 symbolic chars (full 21-bit range): long_attributes() == split at ';' then at the first '='"""
import z3
from ..values import *
from .. import explore as X
from ..models_coll import utf8_valid, utf8_encode
from . import valuegen as VG

CRATE = 'simple-dns'


def tasks(tier, params):
    ns = [0, 1, 3, 253, 254, 255, 256] + ([508, 509, 510] if tier == 'thorough' else [])
    out = [('chunk.%d' % n, {'part': 'chunk', 'n': n}) for n in ns]
    for kinds in (('none',), ('empty',), ('val',), ('none', 'val'), ('val', 'empty')):
        out.append(('attr.' + '-'.join(kinds), {'part': 'attr', 'kinds': kinds}))
    out.append(('attr.dup', {'part': 'dup'}))
    for n in (0, 1, 2, 3):
        out.append(('long.%d' % n, {'part': 'long', 'n': n}))
    for n in (0, 255, 256, 300):
        out.append(('cs.%d' % n, {'part': 'cs', 'n': n}))
    out.append(('attr.long', {'part': 'attrlong'}))
    if params.get('part_only') == 'attr':
        out = [o for o in out if o[0].startswith('attr.')]
    return out


def inherent(prog, ty, m):
    c = [f for t, f in prog.methods.get((ty, m), []) if t is None]
    if len(c) != 1:
        raise Unsupported("cannot resolve %s::%s" % (ty, m))
    return c[0]


def trait_fn(prog, ty, m, trait):
    c = [f for t, f in prog.methods.get((ty, m), []) if (t or '').replace(' ', '').startswith(trait.replace(' ', ''))]
    if len(c) != 1:
        raise Unsupported("cannot resolve <%s as %s>::%s (%d)" % (ty, trait, m, len(c)))
    return c[0]


def string_of(bs):
    return VecV(list(bs), True)


def str_ref(I, bs, name='s'):
    return SliceRef(Ref(Cell(Agg('array', list(bs)), name)), mk('usize', 0), mk('usize', len(bs)), True)


def run_task(prog, tid, params, tier):
    part = params['part']
    stats = {}
    okp = [0]
    f_from_str = trait_fn(prog, 'TXT', 'try_from', "TryFrom<&str>")
    f_to_string = trait_fn(prog, 'String', 'try_from', 'TryFrom<TXT')
    f_from_map = trait_fn(prog, 'TXT', 'try_from', 'TryFrom<HashMap')
    f_attr = inherent(prog, 'TXT', 'attributes')
    f_long = inherent(prog, 'TXT', 'long_attributes')
    holder = {}

    def finish(v):
        out = {'paths': stats.get('paths', 0), 'queries': stats.get('queries', 0), 'solver_s': stats.get('solver_s', 0.0),
               'outcomes': stats.get('outcomes', {}), 'functions': stats.get('functions', set()),
               'covers': {'complete': okp[0]}, 'covers_witnessed': 1 if okp[0] else 0}
        if v is not None:
            out.update(v)
        elif 'truncated' in stats or stats.get('outcomes', {}).get('bound'):
            out['status'] = 'inconclusive'
            out['detail'] = 'truncated/bound'
        elif not okp[0]:
            out['status'] = 'inconclusive'
            out['detail'] = 'vacuous'
        return out

    def viol(res, role, what, text_syms=None, extra=None):
        m = res.ctx.model()
        cex = {'entry': 'txt_' + part, 'expect': {'any_failure': True}}
        if text_syms is not None:
            cex['bytes'] = X.model_bytes(m, text_syms)
        if extra:
            cex.update(extra(m))
        return {'status': 'violation', 'role': role, 'detail': '%s: %s' % (tid, what), 'cex': cex}

    if part in ('cs', 'attrlong'):
        n = params.get('n', 0)

        def run(I):
            if part == 'cs':
                out = []
                # owned String, &str and &[u8] constructors: over-long input must be refused, never truncated
                sv = VecV([mk('u8', 97)] * n, True)
                out.append(('TryFrom<String>', I.do_call(None, '<CharacterString as TryFrom<String>>::try_from', [sv])))
                out.append(('TryFrom<&str>', I.do_call(None, '<CharacterString as TryFrom<&str>>::try_from', [str_ref(I, [mk('u8', 97)] * n)])))
                bs = SliceRef(Ref(Cell(Agg('array', [mk('u8', 97)] * n), 'b')), mk('usize', 0), mk('usize', n))
                out.append(('new', I.call_function(inherent(prog, 'CharacterString', 'new'), [bs], {})))
                return out
            # attribute entry of 256 bytes ("k=vvvv..."): TXT::try_from(map) must refuse it
            key = string_of([mk('u8', 107)])
            val = Some(string_of([mk('u8', 118)] * 254))
            return [('map-256', I.call_function(f_from_map, [MapV('HashMap', [(key, val)])], {}))]

        def on_path(res):
            if res.kind == 'panic':
                return viol(res, 'panic', 'panic: ' + res.msg)
            if res.kind != 'return':
                return None
            for what, r in res.value:
                want_ok = (n <= 255) if part == 'cs' else False
                if (r.var == 'Ok') != want_ok:
                    return {'status': 'violation', 'role': 'length', 'detail': '%s: %s %s a %d-byte string' % (
                        tid, what, 'accepts' if r.var == 'Ok' else 'refuses', n if part == 'cs' else 256),
                        'cex': {'entry': 'txt_cs', 'n': n if part == 'cs' else 256, 'expect': {'any_failure': True}}}
            okp[0] += 1
            return None
        return finish(X.explore(prog, run, on_path, loop_bound=700, stats=stats, timeout_ms=60000))

    if part == 'chunk':
        n = params['n']
        syms = X.sym_bytes('c', n)

        def run(I):
            I.ctx.assume(utf8_valid(syms))
            txt = I.call_function(f_from_str, [str_ref(I, syms)], {})
            if txt.var != 'Ok':
                return ('err', None, None)
            t = txt.f[0]
            pieces = [I.seq_list(cs.f[0]) for cs in t.f[0].items]
            # the record built from the text: len() == bytes written, and the written RDATA parses back to the same strings
            tref = I.new_ref(t, 'txt')
            sink = Cell(VecV(()), 'sink')
            f_w = [f for tr, f in prog.methods[('TXT', 'write_to')] if (tr or '').startswith('WireFormat')][0]
            f_l = [f for tr, f in prog.methods[('TXT', 'len')] if (tr or '').startswith('WireFormat')][0]
            f_p = [f for tr, f in prog.methods[('TXT', 'parse')] if (tr or '').startswith('WireFormat')][0]
            w = I.call_function(f_w, [tref, Ref(sink)], {'T': 'Vec<u8>'})
            ln = I.call_function(f_l, [tref], {})
            wire = list(sink.v.items)
            pos = Cell(mk('usize', 0), 'pos')
            pr = I.call_function(f_p, [X.byte_buffer(I, wire, 'wire'), Ref(pos)], {}) if w.var == 'Ok' else None
            I.wirecheck = (w, ln, wire, pr)
            back = I.call_function(f_to_string, [t], {})
            return ('ok', pieces, back)

        def on_path(res):
            if res.kind == 'panic':
                return viol(res, 'panic', 'panic: ' + res.msg, syms)
            if res.kind != 'return':
                return None
            st, pieces, back = res.value
            if st != 'ok':
                return viol(res, 'reject', 'TXT::try_from(&str) fails on a %d-byte string' % n, syms)
            if any(len(p) > 255 for p in pieces):
                return viol(res, 'piece', 'a piece exceeds 255 bytes', syms)
            w, ln, wire, pr = res.interp.wirecheck
            if w.var != 'Ok' or res.ctx.check(ln.z() != len(wire)) or (n and len(wire) != n + len(pieces)):
                return viol(res, 'wire-len', 'TXT built from text: len() / bytes written / string lengths disagree', syms)
            if pr is None or pr.var != 'Ok' or len(pr.f[0].f[0].items) != max(1, len(pieces)):
                return viol(res, 'wire-parse', 'the RDATA written for a TXT built from text does not parse back to the same strings', syms)
            if back.var != 'Ok':
                return viol(res, 'join', 'String::try_from(TXT) fails', syms)
            out = list(back.f[0].items)
            if len(out) != n or (n and res.ctx.check(z3.Or([a.z() != b.z() for a, b in zip(out, syms)]))):
                return viol(res, 'lossy', 'joining the pieces does not give back the string', syms)
            okp[0] += 1
            return None
        return finish(X.explore(prog, run, on_path, loop_bound=700, stats=stats, timeout_ms=120000))

    if part in ('attr', 'dup'):
        def mk_text(I, g, n, tag, no_eq):
            bs = [g.fresh('u8', tag) for _ in range(n)]
            I.ctx.assume(utf8_valid(bs))
            if no_eq:
                for b in bs:
                    I.ctx.assume(b.z() != 61)
            return bs

        def run(I):
            g = VG.Gen(prog, I.ctx)
            I.g = g
            entries = []
            if part == 'attr':
                for i, kind in enumerate(params['kinds']):
                    key = mk_text(I, g, 2 if i == 0 else 1, 'k%d' % i, True)
                    if kind == 'none':
                        val = NONE
                        vb = None
                    else:
                        vb = mk_text(I, g, 0 if kind == 'empty' else 2, 'v%d' % i, False)
                        val = Some(string_of(vb))
                    entries.append((string_of(key), val, key, vb))
                # distinct keys (a map)
                if len(entries) == 2 and len(entries[0][2]) == len(entries[1][2]):
                    I.ctx.assume(z3.Or([a.z() != b.z() for a, b in zip(entries[0][2], entries[1][2])]))
                mp = MapV('HashMap', [(e[0], e[1]) for e in entries])
                txt = I.call_function(f_from_map, [mp], {})
                if txt.var != 'Ok':
                    return ('err', entries, None)
                t = txt.f[0]
            else:
                # duplicate key: "k=a" then "k=b" (and "k" alone): the first occurrence wins
                key = mk_text(I, g, 1, 'k', True)
                v1, v2 = mk_text(I, g, 1, 'a', False), mk_text(I, g, 1, 'b', False)
                strs = []
                for bs in (key + [mk('u8', 61)] + v1, key + [mk('u8', 61)] + v2, key):
                    cw = En('Cow', 'Borrowed', (SliceRef(Ref(Cell(Agg('array', bs), 'cs')), mk('usize', 0), mk('usize', len(bs))),))
                    strs.append(g.struct('CharacterString', data=cw))
                t = g.struct('TXT', strings=VecV(strs), size=mk('usize', sum(len(s.f[0].f[0].base.cell.v.f) + 1 for s in strs)))
                entries = [(string_of(key), Some(string_of(v1)), key, v1)]
            attrs = I.call_function(f_attr, [I.new_ref(t, 'txt')], {})
            return ('ok', entries, attrs)

        def on_path(res):
            I = res.interp
            if res.kind == 'panic':
                return viol(res, 'panic', 'panic: ' + res.msg)
            if res.kind != 'return':
                return None
            st, entries, attrs = res.value
            def entries_hex(m):
                d = {}
                for i, (ks, val, kb, vb) in enumerate(entries):
                    d['k%d' % i] = bytes(VG.ev(m, b) for b in kb).hex()
                    if vb is not None:
                        d['v%d' % i] = bytes(VG.ev(m, b) for b in vb).hex()
                return d
            _v = viol
            viol2 = lambda res_, role_, what_: _v(res_, role_, what_, None, entries_hex) if part == 'attr' else _v(res_, role_, what_)
            if st != 'ok':
                return viol2(res, 'reject', 'TXT::try_from(map) fails for entries within 255 bytes')
            got = list(attrs.entries)
            if len(got) != len(entries):
                return viol2(res, 'count', 'attributes() returns %d entries for a map of %d' % (len(got), len(entries)))
            # every original entry must be present with the same optional value
            for ks, val, kb, vb in entries:
                conds = []
                for gk, gv in got:
                    kb2 = list(gk.items)
                    if len(kb2) != len(kb):
                        continue
                    c = [a.z() == b.z() for a, b in zip(kb2, kb)]
                    if vb is None:
                        c.append(z3.BoolVal(gv.var == 'None'))
                    else:
                        if gv.var != 'Some' or len(gv.f[0].items) != len(vb):
                            c.append(z3.BoolVal(False))
                        else:
                            c += [a.z() == b.z() for a, b in zip(gv.f[0].items, vb)]
                    conds.append(z3.And(c))
                if not conds or res.ctx.check(z3.Not(z3.Or(conds))):
                    return viol2(res, 'lossy', 'attributes() does not give back the map entry (absent vs empty vs value, or duplicate rule)')
            okp[0] += 1
            return None
        return finish(X.explore(prog, run, on_path, loop_bound=300, stats=stats, timeout_ms=60000))

    if part == 'long':
        n = params['n']
        chars = [sym('ch%d' % i, 'char') for i in range(n)]

        def run(I):
            g = VG.Gen(prog, I.ctx)
            bs = []
            for c in chars:
                # a char is a Unicode scalar value
                I.ctx.assume(z3.And(z3.ULE(c.z(), 0x10FFFF), z3.Or(z3.ULT(c.z(), 0xD800), z3.UGT(c.z(), 0xDFFF))))
                bs += utf8_encode(I, c)
            holder['bytes'] = bs
            cw = En('Cow', 'Borrowed', (SliceRef(Ref(Cell(Agg('array', bs), 'cs')), mk('usize', 0), mk('usize', len(bs))),))
            t = g.struct('TXT', strings=VecV([g.struct('CharacterString', data=cw)]), size=mk('usize', len(bs) + 1))
            r = I.call_function(f_long, [t], {})
            # oracle: split at ';', then at the first '='  (forks on the separator tests only)
            parts, cur = [], []
            for c in chars:
                if I.ctx.branch(c.z() == 59):
                    parts.append(cur)
                    cur = []
                else:
                    cur.append(c)
            parts.append(cur)
            want = []
            for p in parts:
                k = None
                for i, c in enumerate(p):
                    if I.ctx.branch(c.z() == 61):
                        k = i
                        break
                key, val = (p, None) if k is None else (p[:k], p[k + 1:])
                if key:
                    want.append((key, val))
            return r, want

        def on_path(res):
            I = res.interp
            if res.kind == 'panic':
                return viol(res, 'panic', 'panic: ' + res.msg, holder.get('bytes'))
            if res.kind != 'return':
                return None
            r, want = res.value
            if r.var != 'Ok':
                return viol(res, 'reject', 'long_attributes fails on valid UTF-8 text', holder.get('bytes'))
            got = list(r.f[0].entries)
            # first occurrence wins for duplicate keys: compare against the de-duplicated oracle lazily via the solver

            def enc(cs):
                out = []
                for c in cs:
                    out += utf8_encode(I, c)
                return out
            # each got entry must equal the first oracle entry with that key, and counts must agree when keys are distinct
            for gk, gv in got:
                conds = []
                for key, val in want:
                    kb = enc(key)
                    if len(kb) != len(gk.items):
                        continue
                    c = [a.z() == b.z() for a, b in zip(gk.items, kb)]
                    if val is None:
                        c.append(z3.BoolVal(gv.var == 'None'))
                    else:
                        vb = enc(val)
                        if gv.var != 'Some' or len(gv.f[0].items) != len(vb):
                            c.append(z3.BoolVal(False))
                        else:
                            c += [a.z() == b.z() for a, b in zip(gv.f[0].items, vb)]
                    conds.append(z3.And(c))
                if not conds or res.ctx.check(z3.Not(z3.Or(conds))):
                    return viol(res, 'split', 'long_attributes returns an entry that "split at ; then first =" does not produce', holder.get('bytes'))
            for key, val in want:
                kb = enc(key)
                present = [z3.And([a.z() == b.z() for a, b in zip(gk.items, kb)]) for gk, gv in got if len(gk.items) == len(kb)]
                if not present or res.ctx.check(z3.Not(z3.Or(present))):
                    return viol(res, 'split', 'long_attributes misses a key that "split at ; then first =" produces', holder.get('bytes'))
            okp[0] += 1
            return None
        return finish(X.explore(prog, run, on_path, loop_bound=300, stats=stats, timeout_ms=60000, max_paths=50000))
    raise Unsupported(part)
