"""C12: every public observer applied to parsed data returns without panicking, whatever bytes names and strings hold.
For each record type (shapes as C02) the record is parsed from its reference encoding with ALL label / string / blob
bytes symbolic (so invalid UTF-8, NUL, dots, backslashes are inside), then: Debug and Display formatting (through the real
fmt impls and derive(Debug) expansions), clone, into_owned, ==, Hash, match_qtype / match_qclass, and for TXT
attributes(), long_attributes(), String::try_from.  One packet-level task formats a whole parsed Packet."""
import z3
from ..values import *
from .. import explore as X
from ..models_fmt import new_formatter, trait_fmt
from . import valuegen as VG
from .valuegen import S
from .rr_roundtrip import build_record, fn

CRATE = 'simple-dns'


def tasks(tier, params):
    out = [('rr.' + t.name, {'type': t.name}) for t in S.TYPES] + [('rr.NULL', {'type': 'NULL'})]
    out.append(('packet', {'type': None}))
    return out


def run_task(prog, tid, params, tier):
    tname = params['type']
    f_parse = fn(prog, 'ResourceRecord', 'parse')
    f_clone = fn(prog, 'ResourceRecord', 'clone', 'Clone')
    f_eq = fn(prog, 'ResourceRecord', 'eq', 'PartialEq')
    f_hash = fn(prog, 'ResourceRecord', 'hash', 'Hash')
    f_owned = [f for t, f in prog.methods[('ResourceRecord', 'into_owned')] if t is None][0]
    f_mq = [f for t, f in prog.methods[('ResourceRecord', 'match_qtype')] if t is None][0]
    f_mc = [f for t, f in prog.methods[('ResourceRecord', 'match_qclass')] if t is None][0]
    agg = {'paths': 0, 'queries': 0, 'solver_s': 0.0, 'outcomes': {}, 'functions': set(), 'covers_witnessed': 0}
    if tname is None:
        from .packet_rt import Builder, scenarios, fn_inherent
        sc = dict(scenarios('quick'))['mx_srv']
        f_plain = fn_inherent(prog, 'Packet', 'build_bytes_vec')
        f_pparse = fn_inherent(prog, 'Packet', 'parse')
        shapes = [None]
    else:
        shapes = [{'rest': 2}] if tname == 'NULL' else VG.shapes_for(S.BY_NAME[tname], 'quick')
        # strings of at most 5 (quick) / 16 (thorough) symbolic bytes: the observers walk them byte by byte and fork on each
        cap = 5 if tier == 'quick' else 16
        long_ = [dict(sh, light=True) for sh in shapes if any(n > cap for n in sh.get('strs', ()))]
        shapes = [sh for sh in shapes if all(n <= cap for n in sh.get('strs', ()))]
        shapes = VG.pick(shapes, 4 if tier == 'quick' else 8)
        # one maximal-length string shape per type: formatting / clone / eq / hash only (the byte-by-byte TXT attribute
        # observers are run on the short strings above)
        long_.sort(key=lambda sh: sum(len(n) for n in sh.get('names', ())))      # fewest name labels first: cheapest
        shapes += long_[:1] if tier == 'quick' else long_[:2]
    for shape in shapes:
        stats = {}
        done = [0]
        holder = {}

        def run(I):
            I.hash_order_fixed = True
            if tname is None:
                b = Builder(prog, I, sc, 'base')
                p = b.packet('base')
                plain = I.call_function(f_plain, [I.new_ref(p, 'p')], {})
                bs = list(plain.f[0].items)
                holder['bytes'] = bs
                pr = I.call_function(f_pparse, [X.byte_buffer(I, bs, 'plain')], {})
                fref = new_formatter(I)
                trait_fmt(I, 'Debug', I.new_ref(pr.f[0], 'pkt'), fref)
                return True
            # the first shape of every type is parsed with the ROOT owner name (zero labels), the others with a 2-label owner
            rr, expected, rust, g = build_record(prog, I, tname, shape, owner_shape=() if shape is shapes[0] else (2, 1))
            holder['bytes'] = expected
            pos = Cell(mk('usize', 0), 'pos')
            pr = I.call_function(f_parse, [X.byte_buffer(I, expected, 'wire'), Ref(pos)], {})
            if pr.var != 'Ok':
                return False
            v = pr.f[0]
            ref = I.new_ref(v, 'v')
            # Debug of the whole record (derive chain), Display of the owner name
            trait_fmt(I, 'Debug', ref, new_formatter(I))
            trait_fmt(I, 'Display', Ref(ref.cell, (0,)), new_formatter(I))
            cl = I.call_function(f_clone, [ref], {})
            ow = I.call_function(f_owned, [cl], {})
            I.call_function(f_eq, [I.new_ref(ow, 'ow'), ref], {})
            I.call_function(f_hash, [ref, Ref(Cell(HasherV(), 'h'))], {})
            I.call_function(f_mq, [ref, En('QTYPE', 'MAILB')], {})
            I.call_function(f_mq, [ref, En('QTYPE', 'TYPE', (En('TYPE', 'TXT'),))], {})
            I.call_function(f_mc, [ref, En('QCLASS', 'CLASS', (En('CLASS', 'CH'),))], {})
            # observers of the owner name: link-local test, suffix relations with itself, label count, encoded length
            nref = Ref(ref.cell, ref.path + (0,))
            for meth, extra in (('is_link_local', []), ('is_subdomain_of', [nref]), ('without', [nref]), ('get_labels', []), ('len', [])):
                cands = [f for t, f in prog.methods.get(('Name', meth), []) if t is None or (meth == 'len' and (t or '').startswith('WireFormat'))]
                if len(cands) == 1:
                    I.call_function(cands[0], [nref] + extra, {})
            if tname == 'TXT' and not shape.get('light'):
                txt = v.f[3].f[0]
                tref = I.new_ref(txt, 'txt')
                f_attr = [f for t, f in prog.methods[('TXT', 'attributes')] if t is None][0]
                f_long = [f for t, f in prog.methods[('TXT', 'long_attributes')] if t is None][0]
                I.call_function(f_attr, [tref], {})
                I.call_function(f_long, [txt], {})
                I.do_call(None, '<String as TryFrom<TXT>>::try_from', [txt])
                for cs in txt.f[0].items:
                    trait_fmt(I, 'Display', I.new_ref(cs, 'cs'), new_formatter(I))
                    I.do_call(None, '<String as TryFrom<CharacterString>>::try_from', [cs])
            return True

        def on_path(res):
            if res.kind == 'panic':
                m = res.ctx.model()
                bs = X.model_bytes(m, holder.get('bytes', []))
                return {'status': 'violation', 'role': 'panic', 'detail': '%s shape %r: an observer panics: %s' % (tid, shape, res.msg),
                        'cex': {'entry': 'observe_rr' if tname else 'observe_packet', 'bytes': bs, 'pos': 0,
                                'expect': {'outcome': 'panic'}}}
            if res.kind == 'return' and res.value:
                done[0] += 1
            return None
        v = X.explore(prog, run, on_path, loop_bound=600, stats=stats, timeout_ms=60000, max_paths=5000)
        agg['paths'] += stats.get('paths', 0)
        agg['queries'] += stats.get('queries', 0)
        agg['solver_s'] += stats.get('solver_s', 0.0)
        for k_, n_ in stats.get('outcomes', {}).items():
            agg['outcomes'][k_] = agg['outcomes'].get(k_, 0) + n_
        agg['functions'].update(stats.get('functions', ()))
        if v is not None:
            agg.update(v)
            return agg
        if 'truncated' in stats:
            agg['status'] = 'inconclusive'
            agg['detail'] = 'truncated'
            return agg
        if done[0]:
            agg['covers_witnessed'] += 1
    if agg['covers_witnessed'] != len(shapes):
        agg['status'] = 'inconclusive'
        agg['detail'] = 'vacuous: %d of %d shapes' % (agg['covers_witnessed'], len(shapes))
    return agg
