"""simple-mdns record store and reply builder on the real MIR (C13, C20, C14.query):

 key    : get_key(a) is a byte-prefix of get_key(b)  <=>  b == a or b is a label-wise subdomain of a;
          get_key(a) == get_key(b) <=> a == b    (names over symbolic labels of length 1..2, <= 3 labels)
 reply  : build_reply(query, store) vs the set-theoretic statement (answers subset of matching authoritative records at or
          below the question name, superset of those exactly at it; additional only address records of an included SRV
          target; id / RESPONSE flag / unicast; None iff nothing matches)
 expiry : histories of add-authoritative / add-cached(ttl, flush) / re-add / remove / clear with a symbolic monotone
          clock, queried with the authoritative(false), authoritative(true), cached and all filters
The trie, HashMap and clock are models (mirsym/models_mdns.py, models_coll.py); everything else is the crate's MIR."""
import z3
from ..values import *
from .. import explore as X
from ..models_coll import iter_collect, to_iter
from . import valuegen as VG
from .rr_roundtrip import deep_eq

CRATE = 'simple-mdns'

# name pool over shared symbolic labels.  L12 is a 2-byte label so that "a.b" vs "ab" style collisions are reachable.
LABELS = {'L0': 1, 'L1': 1, 'L2': 1, 'L12': 2, 'L3': 2}
POOL = {'n1': ('L1', 'L2'), 'n2': ('L12',), 'n3': ('L2',), 'n4': ('L0', 'L1', 'L2'), 'n5': ('L1',), 'n6': ('L3', 'L2'), 'r': ()}


def tasks(tier, params):
    part = params.get('part')
    out = []
    if part in (None, 'key'):
        names = list(POOL)
        for a in names:
            for b in names:
                out.append(('key.%s.%s' % (a, b), {'part': 'key', 'a': a, 'b': b}))
    if part in (None, 'reply'):
        for i, sc in enumerate(reply_scenarios(tier)):
            out.append(('reply.%d' % i, {'part': 'reply', 'sc': sc}))
    if part in (None, 'expiry'):
        for i, h in enumerate(histories(tier)):
            out.append(('expiry.%d' % i, {'part': 'expiry', 'hist': h}))
    return out


def reply_scenarios(tier):
    # store ops: (kind, owner, rtype, extra)   kind: auth | cached ; rtype: A | SRV(target) | TXT
    S = []
    S.append(dict(ops=[('auth', 'n1', 'A', None)], q=[('n1', 'A', 'IN')]))
    S.append(dict(ops=[('auth', 'n1', 'A', None)], q=[('n2', 'ANY', 'ANY')]))            # a.b vs ab
    S.append(dict(ops=[('auth', 'n2', 'A', None)], q=[('n1', 'ANY', 'ANY')]))
    S.append(dict(ops=[('auth', 'n4', 'A', None), ('auth', 'n1', 'A', None)], q=[('n1', 'A', 'ANY')]))   # subdomain + exact
    S.append(dict(ops=[('auth', 'n1', 'A', None), ('auth', 'n6', 'A', None)], q=[('n3', 'ANY', 'IN')]))  # both below n3
    S.append(dict(ops=[('auth', 'n5', 'A', None), ('auth', 'n2', 'A', None)], q=[('n5', 'ANY', 'ANY')])) # "_my" vs "_mysrv"
    S.append(dict(ops=[('auth', 'n1', 'SRV', 'n3'), ('auth', 'n3', 'A', None), ('auth', 'n5', 'A', None)], q=[('n1', 'SRV', 'IN')]))
    S.append(dict(ops=[('cached', 'n1', 'A', None), ('auth', 'n1', 'TXT', None)], q=[('n1', 'ANY', 'ANY')]))
    S.append(dict(ops=[('auth', 'n1', 'A', None)], q=[('n1', 'SRV', 'IN'), ('n1', 'A', 'IN')]))
    # SRV whose target (n3) has an address record AND a subdomain (n1 = x.n3) with another address record
    S.append(dict(ops=[('auth', 'n6', 'SRV', 'n3'), ('auth', 'n3', 'A', None), ('auth', 'n1', 'A', None)], q=[('n6', 'SRV', 'IN')]))
    # removal of a record that may or may not be the registered one (same owner, independent RDATA)
    S.append(dict(ops=[('auth', 'n1', 'A', None), ('remove', 'n1', 'A', None)], q=[('n1', 'A', 'IN')]))
    S.append(dict(ops=[('auth', 'n1', 'A', None), ('auth', 'n1', 'TXT', None), ('remove', 'n1', 'A', None)], q=[('n1', 'ANY', 'ANY')]))
    # a record first learned from the network, then registered locally (same owner, independent RDATA: equal or not)
    S.append(dict(ops=[('cached', 'n1', 'A', None), ('auth', 'n1', 'A', None)], q=[('n1', 'A', 'IN')]))
    # SRV whose target (n3) is known only from the network while a subdomain of the target (n1 = x.n3) has a registered address
    S.append(dict(ops=[('auth', 'n6', 'SRV', 'n3'), ('cached', 'n3', 'A', None), ('auth', 'n1', 'A', None)], q=[('n6', 'SRV', 'IN')]))
    S.append(dict(ops=[], q=[('n1', 'ANY', 'ANY')]))
    S.append(dict(ops=[('auth', 'n1', 'A', None)], q=[]))
    if tier == 'thorough':
        S.append(dict(ops=[('auth', 'n1', 'SRV', 'n2'), ('auth', 'n2', 'A', None), ('cached', 'n2', 'A', None)], q=[('n1', 'ANY', 'ANY')]))
        S.append(dict(ops=[('auth', 'n4', 'A', None), ('auth', 'n6', 'A', None), ('auth', 'n3', 'TXT', None)], q=[('n3', 'ANY', 'ANY'), ('n1', 'A', 'IN')]))
        S.append(dict(ops=[('auth', 'r', 'A', None), ('auth', 'n3', 'A', None)], q=[('r', 'ANY', 'ANY')]))
        S.append(dict(ops=[('auth', 'n1', 'A', None), ('auth', 'n1', 'A', None)], q=[('n1', 'A', 'IN')]))
    return S


def histories(tier):
    H = [
        [('cached', 'R')],
        [('auth', 'R')],
        [('auth', 'R'), ('cached', 'R2')],
        [('cached', 'R'), ('auth', 'R2')],
        [('cached', 'R'), ('cached', 'R2')],
        [('cached', 'R'), ('remove', 'R2')],
        [('auth', 'R'), ('remove', 'R')],
        [('auth', 'R'), ('clear', None)],
        [('cached', 'R'), ('clear', None), ('cached', 'R2')],
        # X: same owner and class, independent address (equal to R's or not): removing it may only remove R when it IS R's key
        [('auth', 'R'), ('remove', 'X')],
        [('cached', 'R'), ('remove', 'X')],
    ]
    if tier == 'thorough':
        H += [
            [('cached', 'R'), ('cached', 'R2'), ('cached', 'R')],
            [('auth', 'R'), ('cached', 'R2'), ('remove', 'R')],
            [('cached', 'R'), ('auth', 'R2'), ('cached', 'R')],
            [('cached', 'R'), ('remove', 'R'), ('cached', 'R2')],
            [('auth', 'R'), ('clear', None), ('cached', 'R2')],
        ]
    return H


def free_fn(prog, name):
    c = prog.free.get(name, [])
    if len(c) != 1:
        raise Unsupported("cannot resolve fn %s (%d)" % (name, len(c)))
    return c[0]


def inherent(prog, ty, m):
    c = [f for t, f in prog.methods.get((ty, m), []) if t is None]
    if len(c) != 1:
        raise Unsupported("cannot resolve %s::%s (%d)" % (ty, m, len(c)))
    return c[0]


class Pool:
    def __init__(self, prog, I):
        self.g = VG.Gen(prog, I.ctx)
        self.lab = {}

    def label(self, lid):
        if lid not in self.lab:
            self.lab[lid] = [self.g.fresh('u8', lid) for _ in range(LABELS[lid])]
        return self.lab[lid]

    def name(self, nid):
        lbs = [self.label(l) for l in POOL[nid]]
        v, _ = self.g.name(tuple(len(b) for b in lbs), nid, label_bytes=lbs)
        return v

    def labels(self, nid):
        return [self.label(l) for l in POOL[nid]]


def lab_eq(a, b):
    if len(a) != len(b):
        return z3.BoolVal(False)
    return z3.And([x.z() == y.z() for x, y in zip(a, b)])


def name_eq(la, lb):
    if len(la) != len(lb):
        return z3.BoolVal(False)
    return z3.And([z3.BoolVal(True)] + [lab_eq(x, y) for x, y in zip(la, lb)])


def name_sub(la, lb):
    """la is a strict label-wise subdomain of lb"""
    if len(la) <= len(lb):
        return z3.BoolVal(False)
    return z3.And([z3.BoolVal(True)] + [lab_eq(x, y) for x, y in zip(la[len(la) - len(lb):], lb)])


def run_task(prog, tid, params, tier):
    part = params['part']
    stats = {}
    covers = {'ok': 0}

    def finish(v):
        out = {'paths': stats.get('paths', 0), 'queries': stats.get('queries', 0), 'solver_s': stats.get('solver_s', 0.0),
               'outcomes': stats.get('outcomes', {}), 'functions': stats.get('functions', set()), 'covers': covers,
               'covers_witnessed': 1 if covers['ok'] else 0}
        if v is not None:
            out.update(v)
        elif 'truncated' in stats or stats.get('outcomes', {}).get('bound'):
            out['status'] = 'inconclusive'
            out['detail'] = 'truncated/bound %r' % (stats.get('outcomes'),)
        elif not covers['ok']:
            out['status'] = 'inconclusive'
            out['detail'] = 'vacuous'
        return out

    def rs_name(m, pool, nid):
        return 'nm(&[%s])' % ', '.join('&[%s]' % ', '.join(str(VG.ev(m, b)) for b in pool.label(l)) for l in POOL[nid])

    def rs_record(m, I, pool, owner, rtype, extra, rec, cls):
        ttl, flush = VG.ev(m, rec.f[2]), 'true' if VG.ev(m, rec.f[4]) else 'false'
        rd = rec.f[3].f[0]
        if rtype == 'A':
            rds = 'RData::A(A { address: %d })' % VG.ev(m, rd.f[0])
        elif rtype == 'SRV':
            rds = 'RData::SRV(SRV { priority: 0, weight: 0, port: %d, target: %s })' % (VG.ev(m, rd.f[2]), rs_name(m, pool, extra))
        else:
            bs = I.seq_list(rd.f[0].items[0].f[0])
            rds = 'RData::TXT(TXT::new().with_char_string(CharacterString::new(&[%s]).unwrap()))' % ', '.join(str(VG.ev(m, b)) for b in bs)
        return 'rec(%s, CLASS::%s, %d, %s, %s)' % (rs_name(m, pool, owner), cls, ttl, flush, rds)

    def rust_case(res, m):
        I = res.interp
        pool = I.pool
        L = ['#[test]', 'fn verif_case() {']
        if part == 'key':
            L += ['    let (a, b) = (%s, %s);' % (rs_name(m, pool, params['a']), rs_name(m, pool, params['b'])),
                  '    let (ka, kb) = (crate::resource_record_manager::get_key_for_test(&a), crate::resource_record_manager::get_key_for_test(&b));',
                  '    let mut fails = Vec::new();',
                  '    let want = a == b || is_sub(&b, &a);',
                  '    if kb.starts_with(&ka) != want { fails.push("prefix"); }',
                  '    if (ka == kb) != (a == b) { fails.push("equal"); }',
                  '    report(fails);', '}']
            return '\n'.join(L)
        if part == 'reply':
            L.append('    let mut mgr = ResourceRecordManager::new();')
            L.append('    let mut recs: Vec<(bool, ResourceRecord<\'static>)> = Vec::new();')
            steps = [(x[6], 'add', x) for x in I.recs] + [(x[0], 'rm', x) for x in I.removed]
            for _, what_, x in sorted(steps, key=lambda t: t[0]):
                if what_ == 'add':
                    (kind, owner, rtype, extra, rec, cls, _k) = x
                    L.append('    let r = %s;' % rs_record(m, I, pool, owner, rtype, extra, rec, cls))
                    L.append('    recs.push((%s, r.clone()));' % ('true' if kind == 'auth' else 'false'))
                    L.append('    mgr.%s(r);' % ('add_authoritative_resource' if kind == 'auth' else 'add_cached_resource'))
                else:
                    (_k, owner, rtype, rec, cls) = x
                    L.append('    let r = %s;' % rs_record(m, I, pool, owner, rtype, None, rec, cls))
                    L.append('    recs.retain(|(_, x)| !(*x == r));')
                    L.append('    mgr.remove_resource_record(&r);')
            L.append('    let mut query = Packet::new_query(%d);' % VG.ev(m, I.pid))
            L.append('    let mut questions = Vec::new();')
            for (qn, qt, qc, uni) in I.qs:
                qts = 'QTYPE::ANY' if qt == 'ANY' else 'QTYPE::TYPE(TYPE::%s)' % qt
                qcs = 'QCLASS::ANY' if qc == 'ANY' else 'QCLASS::CLASS(CLASS::%s)' % qc
                L.append('    questions.push(Question::new(%s, %s, %s, %s));' % (rs_name(m, pool, qn), qts, qcs, 'true' if VG.ev(m, uni) else 'false'))
            L += ['    query.questions = questions.clone();',
                  '    let mgr: &\'static ResourceRecordManager<\'static> = Box::leak(Box::new(mgr));',
                  '    let reply = crate::build_reply(query, mgr);',
                  '    report(check_reply(&recs, &questions, %d, reply));' % VG.ev(m, I.pid), '}']
            return '\n'.join(L)
        # expiry
        L.append('    let mut mgr = ResourceRecordManager::new();')
        addr = VG.ev(m, I.recs['R'].f[3].f[0].f[0])
        for nm_ in ('R', 'R2', 'X'):
            r = I.recs[nm_]
            L.append('    let %s = rec(%s, CLASS::IN, %d, %s, RData::A(A { address: %d }));' % (
                nm_.lower(), rs_name(m, pool, 'n1'), VG.ev(m, r.f[2]), 'true' if VG.ev(m, r.f[4]) else 'false',
                VG.ev(m, r.f[3].f[0].f[0])))
        k = 0
        clock = [VG.ev(m, c) for c in I.clock]
        for op, which in params['hist']:
            if op == 'auth':
                L.append('    mgr.add_authoritative_resource(%s.clone());' % which.lower())
            elif op == 'cached':
                L.append('    mgr.add_cached_resource(%s.clone());' % which.lower())
                k += 1
            elif op == 'remove':
                L.append('    mgr.remove_resource_record(&%s);' % which.lower())
            else:
                L.append('    mgr.clear();')
        # sleep before each clock-reading query so that the real clock is on the same side of the expiry as in the model
        # (the model's clock readings: one per add_cached_resource, then one per cached / all filter query)
        L.append('    let name = %s;' % rs_name(m, pool, 'n1'))
        L.append('    let mut counts = [0usize; 4];')
        prev = clock[k - 1] if k else (clock[0] if clock else 0)
        ci = k
        flts = ['DomainResourceFilter::authoritative(false)', 'DomainResourceFilter::authoritative(true)', 'DomainResourceFilter::cached()', 'DomainResourceFilter::all()']
        for qi, (fname, fargs, groups, tq) in enumerate(res.value):
            if tq is not None and ci < len(clock):
                now = clock[ci]
                ci += 1
                if k and now > prev:
                    L.append('    std::thread::sleep(std::time::Duration::from_millis(%d));' % (min(4000, (now - prev) // 1000000) + 150))
                prev = max(prev, now)
            L.append('    counts[%d] = count(&mgr, &name, %s);' % (qi, flts[qi]))
        L.append('    println!("REPLAY-RESULT {{\\"outcome\\":\\"ok\\",\\"counts\\":[{},{},{},{}]}}", counts[0], counts[1], counts[2], counts[3]);')
        L.append('}')
        return '\n'.join(L)

    def viol(res, role, what, extra=None):
        m = res.ctx.model()
        pool = getattr(res.interp, 'pool', None)
        labs = {k: [VG.ev(m, b) for b in v] for k, v in pool.lab.items()} if pool else {}
        cex = {'entry': 'mdns_test', 'task': tid, 'labels': labs, 'what': what, 'expect': {'any_failure': True}}
        try:
            cex['code'] = rust_case(res, m)
        except Exception as e:      # noqa
            cex['code_error'] = repr(e)
            cex['entry'] = 'mdns-no-replay'
        if extra:
            cex.update(extra)
        return {'status': 'violation', 'role': role, 'detail': '%s: %s (labels %r)' % (tid, what, labs), 'cex': cex}

    # ------------------------------------------------------------------ key
    if part == 'key':
        f_key = free_fn(prog, 'get_key')
        a, b = params['a'], params['b']

        def run(I):
            I.hash_order_fixed = True
            I.pool = Pool(prog, I)
            na, nb = I.pool.name(a), I.pool.name(b)
            ka = I.call_function(f_key, [I.new_ref(na, 'a')], {})
            kb = I.call_function(f_key, [I.new_ref(nb, 'b')], {})
            return list(ka.items), list(kb.items)

        def on_path(res):
            if res.kind == 'panic':
                return viol(res, 'panic', 'get_key panics: ' + res.msg)
            if res.kind != 'return':
                return None
            ka, kb = res.value
            la, lb = res.interp.pool.labels(a), res.interp.pool.labels(b)
            covers['ok'] += 1
            pre = z3.And([z3.BoolVal(True)] + [x.z() == y.z() for x, y in zip(ka, kb)]) if len(ka) <= len(kb) else z3.BoolVal(False)
            want = z3.Or(name_eq(lb, la), name_sub(lb, la))
            if res.ctx.check(pre != want):
                return viol(res, 'prefix', 'get_key(%s) prefix-of get_key(%s) disagrees with "equal or subdomain"' % (a, b))
            same = z3.And(pre, z3.BoolVal(len(ka) == len(kb)))
            if res.ctx.check(same != name_eq(la, lb)):
                return viol(res, 'equal', 'get_key(%s) == get_key(%s) disagrees with name equality' % (a, b))
            return None
        return finish(X.explore(prog, run, on_path, loop_bound=200, stats=stats, timeout_ms=60000))

    f_new = inherent(prog, 'ResourceRecordManager', 'new')
    f_add_a = inherent(prog, 'ResourceRecordManager', 'add_authoritative_resource')
    f_add_c = inherent(prog, 'ResourceRecordManager', 'add_cached_resource')
    f_rm = inherent(prog, 'ResourceRecordManager', 'remove_resource_record')
    f_clear = inherent(prog, 'ResourceRecordManager', 'clear')
    f_get = inherent(prog, 'ResourceRecordManager', 'get_domain_resources')

    def mk_record(I, pool, owner, rtype, extra, tag):
        g = pool.g
        if rtype == 'A':
            rd = En('RData', 'A', (g.struct('A', address=g.fresh('u32', 'addr' + tag)),))
        elif rtype == 'SRV':
            rd = En('RData', 'SRV', (g.struct('SRV', priority=mk('u16', 0), weight=mk('u16', 0), port=g.fresh('u16', 'port' + tag),
                                               target=pool.name(extra)),))
        else:
            c, _ = g.cstr(1)
            rd = En('RData', 'TXT', (g.struct('TXT', strings=VecV([c]), size=mk('usize', 2)),))
        cls_sym = g.fresh('bool', 'ch' + tag)
        cls = 'CH' if I.ctx.branch(cls_sym) else 'IN'
        return g.struct('ResourceRecord', name=pool.name(owner), **{'class': En('CLASS', cls)}, ttl=g.fresh('u32', 'ttl' + tag),
                        rdata=rd, cache_flush=g.fresh('bool', 'fl' + tag)), cls

    # ------------------------------------------------------------------ reply
    if part == 'reply':
        sc = params['sc']
        f_reply = free_fn(prog, 'build_reply')

        def run(I):
            I.hash_order_fixed = True
            pool = I.pool = Pool(prog, I)
            g = pool.g
            mgr = I.new_ref(I.call_function(f_new, [], {}), 'mgr')
            I.recs = []
            I.removed = []
            for k, (kind, owner, rtype, extra) in enumerate(sc['ops']):
                rec, cls = mk_record(I, pool, owner, rtype, extra, str(k))
                if kind == 'remove':
                    I.removed.append((k, owner, rtype, rec, cls))
                    I.call_function(f_rm, [mgr, I.new_ref(rec, 'rm')], {})
                    continue
                I.recs.append((kind, owner, rtype, extra, rec, cls, k))
                I.call_function(f_add_a if kind == 'auth' else f_add_c, [mgr, rec], {})
            qs = []
            I.qs = []
            for k, (qn, qt, qc) in enumerate(sc['q']):
                qtype = En('QTYPE', 'ANY') if qt == 'ANY' else En('QTYPE', 'TYPE', (En('TYPE', qt),))
                qclass = En('QCLASS', 'ANY') if qc == 'ANY' else En('QCLASS', 'CLASS', (En('CLASS', qc),))
                uni = g.fresh('bool', 'uni%d' % k)
                qs.append(g.struct('Question', qname=pool.name(qn), qtype=qtype, qclass=qclass, unicast_response=uni))
                I.qs.append((qn, qt, qc, uni))
            pid = g.fresh('u16', 'id')
            I.pid = pid
            hdr = g.struct('Header', id=pid, opcode=En('OPCODE', 'StandardQuery'), response_code=En('RCODE', 'NoError'),
                           z_flags=Agg('PacketFlag', (Agg('InternalBitFlags', (mk('u16', 0),)),)), opt=NONE)
            pkt = g.struct('Packet', header=hdr, questions=VecV(qs), answers=VecV(()), name_servers=VecV(()),
                           additional_records=VecV(()))
            return I.call_function(f_reply, [pkt, mgr], {})

        def on_path(res):
            I = res.interp
            if res.kind == 'panic':
                return viol(res, 'panic', 'build_reply panics: ' + res.msg)
            if res.kind != 'return':
                return None
            covers['ok'] += 1
            pool = I.pool
            r = res.value

            def tmatch(rtype, qt):
                return qt == 'ANY' or qt == rtype

            def cmatch(cls, qc):
                return qc == 'ANY' or qc == cls
            # per (record, question): z3 conditions
            exact, below = [], []
            for (kind, owner, rtype, extra, rec, cls, k_add) in I.recs:
                # still registered: no later removal of an equal record (equality as the store keys it: owner, class, RDATA)
                alive = z3.BoolVal(True)
                for (k_rm, o_rm, t_rm, r_rm, c_rm) in I.removed:
                    if k_rm > k_add and t_rm == rtype and c_rm == cls:
                        same = z3.And(name_eq(pool.labels(owner), pool.labels(o_rm)), deep_eq(I, rec.f[3], r_rm.f[3]))
                        alive = z3.And(alive, z3.Not(same))
                e, b = [], []
                for (qn, qt, qc, uni) in I.qs:
                    ok = kind == 'auth' and tmatch(rtype, qt) and cmatch(cls, qc)
                    lo, lq = pool.labels(owner), pool.labels(qn)
                    e.append(z3.And(z3.BoolVal(ok), alive, name_eq(lo, lq)))
                    b.append(z3.And(z3.BoolVal(ok), alive, z3.Or(name_eq(lo, lq), name_sub(lo, lq))))
                exact.append(z3.Or([z3.BoolVal(False)] + e))
                below.append(z3.Or([z3.BoolVal(False)] + b))
            must_answer = z3.Or([z3.BoolVal(False)] + exact)
            if r.var == 'None':
                if res.ctx.check(must_answer):
                    return viol(res, 'missing-reply', 'no reply although a registered authoritative record matches a question')
                return None
            tup = r.f[0]
            reply, uni_out = tup.f[0], tup.f[1]
            hdr = reply.f[0]
            answers = list(reply.f[2].items)
            additional = list(reply.f[4].items)
            if reply.f[1].items or reply.f[3].items:
                return viol(res, 'sections', 'reply carries questions or authority records')
            if not answers:
                return viol(res, 'empty-reply', 'a reply without answers is produced')
            # header: id, RESPONSE flag
            flags = hdr.f[3].f[0].f[0]
            if res.ctx.check(z3.Or(hdr.f[0].z() != I.pid.z(), (flags.z() & 0x8000) == 0)):
                return viol(res, 'header', 'reply does not carry the query id and the RESPONSE flag')
            want_uni = z3.Or([z3.BoolVal(False)] + [zbool(u) for (_, _, _, u) in I.qs])
            if res.ctx.check(zbool(uni_out) != want_uni):
                return viol(res, 'unicast', 'unicast delivery is not "iff some question asked for it"')
            # soundness of answers
            for a in answers:
                ok = z3.Or([z3.BoolVal(False)] + [z3.And(deep_eq(I, a, rec[4]), below[i]) for i, rec in enumerate(I.recs)])
                if res.ctx.check(z3.Not(ok)):
                    return viol(res, 'answer-unsound', 'an answer is not a matching authoritative record at or below a question name')
            # completeness for exact owners
            for i, rec in enumerate(I.recs):
                # "included": as the record the store identifies it by (owner, class, RDATA) - registering an equal record twice
                # with another TTL keeps one entry; WHICH TTL an answer may carry is the soundness clause above
                present = z3.Or([z3.BoolVal(False)] + [z3.And(deep_eq(I, a.f[0], rec[4].f[0]), z3.BoolVal(a.f[1].var == rec[4].f[1].var),
                                                             deep_eq(I, a.f[3], rec[4].f[3])) for a in answers])
                if res.ctx.check(z3.And(exact[i], z3.Not(present))):
                    return viol(res, 'answer-missing', 'a matching authoritative record owned by the question name is not in the reply')
            # additional: registered address records owned by the target of an included SRV answer
            for ad in additional:
                conds = []
                for i, rec in enumerate(I.recs):
                    if rec[2] != 'A':
                        continue
                    for j, srv in enumerate(I.recs):
                        if srv[2] != 'SRV':
                            continue
                        included = z3.And(below[j], z3.Or([z3.BoolVal(False)] + [deep_eq(I, a, srv[4]) for a in answers]))
                        conds.append(z3.And(deep_eq(I, ad, rec[4]), included,
                                            name_eq(pool.labels(rec[1]), pool.labels(srv[3]))))
                if res.ctx.check(z3.Not(z3.Or([z3.BoolVal(False)] + conds))):
                    return viol(res, 'additional-unsound', 'an additional record is not an address record of an included SRV target')
            return None
        return finish(X.explore(prog, run, on_path, loop_bound=300, stats=stats, timeout_ms=60000, max_paths=50000))

    # ------------------------------------------------------------------ expiry
    if part == 'expiry':
        hist = params['hist']
        FILTERS = [('authoritative', [FALSE]), ('authoritative', [TRUE]), ('cached', []), ('all', [])]

        def run(I):
            I.hash_order_fixed = True
            pool = I.pool = Pool(prog, I)
            g = pool.g
            mgr = I.new_ref(I.call_function(f_new, [], {}), 'mgr')
            addr = g.fresh('u32', 'addr')
            recs = {}
            for nm in ('R', 'R2'):
                # R and R2 are the same record key (owner, class, rdata) with independent TTL / cache-flush
                recs[nm] = g.struct('ResourceRecord', name=pool.name('n1'), **{'class': En('CLASS', 'IN')},
                                    ttl=g.fresh('u32', 'ttl' + nm), rdata=En('RData', 'A', (g.struct('A', address=addr),)),
                                    cache_flush=g.fresh('bool', 'fl' + nm))
            addrx = g.fresh('u32', 'addrx')
            recs['X'] = g.struct('ResourceRecord', name=pool.name('n1'), **{'class': En('CLASS', 'IN')},
                                 ttl=g.fresh('u32', 'ttlX'), rdata=En('RData', 'A', (g.struct('A', address=addrx),)),
                                 cache_flush=g.fresh('bool', 'flX'))
            I.recs = recs
            I.clock = []
            status = ('absent',)
            for op, which in hist:
                n0 = len(I.clock)
                if op == 'auth':
                    I.call_function(f_add_a, [mgr, recs[which]], {})
                    status = ('auth',)
                elif op == 'cached':
                    I.call_function(f_add_c, [mgr, recs[which]], {})
                    if len(I.clock) != n0 + 1:
                        raise Unsupported("add_cached_resource read the clock %d times" % (len(I.clock) - n0))
                    if status[0] != 'auth':
                        rec = recs[which]
                        ttl = rec.f[2]
                        eff = z3.If(zbool(rec.f[4]), z3.BitVecVal(1, 64), z3.ZeroExt(32, ttl.z()))
                        status = ('cached', I.clock[-1].z() + eff * 1000000000)
                elif op == 'remove':
                    I.call_function(f_rm, [mgr, I.new_ref(recs[which], 'rm')], {})
                    if which != 'X' or I.ctx.branch(addrx.z() == addr.z()):
                        status = ('absent',)
                elif op == 'clear':
                    I.call_function(f_clear, [mgr], {})
                    status = ('absent',)
            I.status = status
            results = []
            for fname, fargs in FILTERS:
                flt = I.call_function(inherent(prog, 'DomainResourceFilter', fname), list(fargs), {})
                n0 = len(I.clock)
                it = I.call_function(f_get, [mgr, I.new_ref(pool.name('n1'), 'qn'), flt], {})
                groups = [iter_collect(I, to_iter(I, x)) for x in iter_collect(I, to_iter(I, it))]
                tq = I.clock[-1].z() if len(I.clock) > n0 else None
                results.append((fname, fargs, [len(gr) for gr in groups], tq))
            return results

        def on_path(res):
            I = res.interp
            if res.kind == 'panic':
                return viol(res, 'panic', 'store operation panics: ' + res.msg)
            if res.kind != 'return':
                return None
            covers['ok'] += 1
            st = I.status
            for fname, fargs, groups, tq in res.value:
                n = sum(groups)
                want_auth = fname in ('authoritative', 'all')
                want_cached = fname in ('cached', 'all')
                if st[0] == 'absent':
                    expect = z3.BoolVal(False)
                elif st[0] == 'auth':
                    expect = z3.BoolVal(want_auth)
                else:
                    if not want_cached:
                        expect = z3.BoolVal(False)
                    else:
                        if tq is None:
                            return viol(res, 'clock', 'a cached record was filtered without reading the clock')
                        expect = z3.ULT(tq, st[1])
                if n > 1:
                    return viol(res, 'duplicate', 'the same record is returned %d times by filter %s' % (n, fname))
                small = z3.And([z3.ULE(r_.f[2].z(), 2) for k_, r_ in I.recs.items() if k_ != 'X'] +
                               [z3.ULE(I.clock[-1].z() - c_.z(), 3000000000) for c_ in I.clock])
                if res.ctx.check(z3.BoolVal(n == 1) != expect):
                    # prefer a witness that real sleeps reproduce robustly: no time passing at all, else small TTLs with every
                    # clock step k s + 0.5 s (well away from the whole-second expiry instants), else small, else any
                    cl = I.clock
                    same = z3.And([z3.BoolVal(True)] + [cl[i + 1].z() == cl[i].z() for i in range(len(cl) - 1)])
                    half = z3.And([z3.BoolVal(True)] + [z3.Or(cl[i + 1].z() == cl[i].z(), z3.URem(cl[i + 1].z() - cl[i].z(), 1000000000) == 500000000)
                                                       for i in range(len(cl) - 1)])
                    bad = z3.BoolVal(n == 1) != expect
                    import os as _os
                    if _os.environ.get('MIRSYM_DEBUG'):
                        print('DBG tiers', res.ctx.check(bad, small, same), res.ctx.check(bad, same), res.ctx.check(bad, small), len(cl), file=__import__('sys').stderr)
                    if not (res.ctx.check(bad, small, same) or res.ctx.check(bad, small, half) or res.ctx.check(bad, small)):
                        res.ctx.check(bad)
                    m = res.ctx.model()
                    want = []
                    for f2, a2, g2, tq2 in res.value:
                        wa, wc = f2 in ('authoritative', 'all'), f2 in ('cached', 'all')
                        if st[0] == 'absent':
                            want.append(0)
                        elif st[0] == 'auth':
                            want.append(1 if wa else 0)
                        else:
                            want.append(1 if (wc and z3.is_true(m.eval(z3.ULT(tq2, st[1]), model_completion=True))) else 0)
                    return viol(res, 'expiry.' + fname,
                                'history %r, filter %s%r: record %s but the statement says otherwise'
                                % (hist, fname, [a.e for a in fargs], 'returned' if n else 'not returned'),
                                {'clock': [VG.ev(m, c) for c in I.clock], 'expect': {'differs': {'counts': want}},
                                 'ttl': {k: [VG.ev(m, r.f[2]), VG.ev(m, r.f[4])] for k, r in I.recs.items()}})
            return None
        return finish(X.explore(prog, run, on_path, loop_bound=300, stats=stats, timeout_ms=60000, max_paths=50000))
    raise Unsupported(part)
