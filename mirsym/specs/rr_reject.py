"""Structural rules the library enforces on RDATA (C10.reject): encodings that break them must be rejected by
ResourceRecord::parse - and never accepted with different content.  Reference bytes come from the schema encoder and
are then broken in exactly one way; all other bytes stay symbolic."""
import z3
from ..values import *
from .. import explore as X
from . import valuegen as VG
from .valuegen import S, be_bytes
from .rr_roundtrip import fn

CRATE = 'simple-dns'

CASES = [
    ('LOC.version', 'LOC', {}, 'version'),
    ('SVCB.order', 'SVCB', {'names': [(1,)], 'list': [1, 2]}, 'order'),
    ('HTTPS.order', 'HTTPS', {'names': [()], 'list': [0, 1]}, 'order'),
    ('NSEC.order', 'NSEC', {'names': [(1,)], 'list': [1, 2]}, 'order'),
    ('TXT.overrun', 'TXT', {'strs': [2, 1]}, 'overrun'),
    ('HINFO.overrun', 'HINFO', {'strs': [1, 2]}, 'overrun'),
    ('NAPTR.overrun', 'NAPTR', {'names': [(1,)], 'strs': [1, 0, 2]}, 'overrun'),
    ('CAA.overrun', 'CAA', {'strs': [3], 'rest': 0}, 'overrun'),
    ('OPT.overrun', 'OPT', {'list': [1, 2]}, 'overrun'),
    ('SVCB.overrun', 'SVCB', {'names': [(1,)], 'list': [2]}, 'overrun'),
    ('NSEC.overrun', 'NSEC', {'names': [()], 'list': [2]}, 'overrun'),
]


def tasks(tier, params):
    return [(c[0], {'case': c}) for c in CASES]


def run_task(prog, tid, params, tier):
    name, tname, shape, kind = params['case']
    f_parse = fn(prog, 'ResourceRecord', 'parse')
    stats = {}
    covers = {'ok': 0, 'err': 0}
    holder = {}

    def run(I):
        g = VG.Gen(prog, I.ctx)
        t = S.BY_NAME[tname]
        v, wire, assume = g.rdata(t, shape)
        if kind == 'version':
            ver = g.fresh('u8', 'ver')
            I.ctx.assume(ver.z() != 0)
            wire = [ver] + wire[1:]
        elif kind == 'order':
            # the schema's ordering constraints are REVERSED: second key/window <= first
            for a in assume:
                I.ctx.assume(z3.Not(a))
        else:
            for a in assume:
                I.ctx.assume(a)
        rdlen = len(wire)
        if kind == 'overrun':
            # lengthen the LAST inner length field by 1..3 so that it runs past RDLENGTH
            idx = last_length_index(tname, shape, wire)
            cur = wire[idx].e
            rem = len(wire) - (idx + 1 + cur)          # bytes that follow the field inside the RDATA
            extra = g.fresh('u8', 'extra')
            I.ctx.assume(z3.And(z3.UGE(extra.z(), rem + 1), z3.ULE(extra.z(), rem + 3)))
            wire = list(wire)
            wire[idx] = sc_from(wire[idx].z() + extra.z(), 'u8')
        ttl = g.fresh('u32', 'ttl')
        cls = be_bytes(mk('u16', 1)) if tname != 'OPT' else be_bytes(g.fresh('u16', 'udp'))
        msg = [mk('u8', 0)] + be_bytes(mk('u16', t.code)) + cls + be_bytes(ttl) + be_bytes(mk('u16', rdlen)) + list(wire)
        # bytes after the record: must not be consumed as part of it
        msg += [g.fresh('u8', 'tail%d' % i) for i in range(4)]
        holder['msg'] = msg
        pos = Cell(mk('usize', 0), 'pos')
        r = I.call_function(f_parse, [X.byte_buffer(I, msg), Ref(pos)], {})
        return r

    def on_path(res):
        if res.kind == 'panic':
            m = res.ctx.model()
            return {'status': 'violation', 'role': 'panic', 'detail': '%s: parse panics: %s' % (name, res.msg),
                    'cex': {'entry': 'rr_parse', 'bytes': X.model_bytes(m, holder['msg']), 'pos': 0, 'expect': {'outcome': 'panic'}}}
        if res.kind != 'return':
            return None
        if res.value.var == 'Ok':
            covers['ok'] += 1
            m = res.ctx.model()
            return {'status': 'violation', 'role': kind, 'detail': '%s: an encoding that breaks the rule "%s" is accepted' % (name, kind),
                    'cex': {'entry': 'rr_parse', 'bytes': X.model_bytes(m, holder['msg']), 'pos': 0, 'expect': {'outcome': 'ok'}}}
        covers['err'] += 1
        return None

    v = X.explore(prog, run, on_path, loop_bound=64, stats=stats, timeout_ms=60000)
    out = {'paths': stats.get('paths', 0), 'queries': stats.get('queries', 0), 'solver_s': stats.get('solver_s', 0.0),
           'outcomes': stats.get('outcomes', {}), 'functions': stats.get('functions', set()), 'covers': covers,
           'covers_witnessed': 1 if covers['err'] else 0}
    if v is not None:
        out.update(v)
    elif not covers['err']:
        out['status'] = 'inconclusive'
        out['detail'] = 'vacuous'
    return out


def last_length_index(tname, shape, wire):
    """index (in the RDATA wire) of the last inner length octet of the shape"""
    n = len(wire)
    if tname in ('TXT', 'HINFO'):
        return n - 1 - shape['strs'][-1]
    if tname == 'NAPTR':
        # order16 pref16 flags services regexp replacement-name
        name_len = sum(l + 1 for l in shape['names'][0]) + 1
        return n - name_len - 1 - shape['strs'][2]
    if tname == 'CAA':
        return 1
    if tname in ('OPT', 'SVCB', 'HTTPS'):
        return n - 1 - shape['list'][-1]          # low byte of the 16-bit length
    if tname == 'NSEC':
        return n - 1 - shape['list'][-1]
    raise Unsupported(tname)
