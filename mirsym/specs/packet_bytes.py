"""Packet::parse on fully symbolic messages (C01.packet, C01.alloc, C12/C14 base): no panic, terminates within the
loop bound, and the elements requested through Vec::with_capacity during parsing sum to at most len(message)."""
import z3
from ..values import *
from .. import explore as X

CRATE = 'simple-dns'


def tasks(tier, params):
    lo, hi = (12, 12 + (params.get('K_thorough', 13) if tier == 'thorough' else params.get('K_quick', 7)))
    out = [('L%d' % l, {'L': l}) for l in list(range(0, 12, 4)) + list(range(lo, hi + 1))]
    return out


def name_contract_stub(I, fr, callee, args):
    """contract of <Name as WireFormat>::parse, discharged for the real code by specs/name_step.py (C06.contract):
       Err: old <= pos' <= max(old, len);   Ok: old < pos' <= len (requires old < len)"""
    from ..models import as_slice
    ctx = I.ctx
    data = as_slice(I, args[0])
    old = I.load_ref(args[1])
    np = sym(ctx.fresh_name('namepos'), 'usize')
    ok = z3.Bool(ctx.fresh_name('nameok'))
    if ctx.branch(ok):
        ctx.assume(z3.And(z3.UGT(np.z(), old.z()), z3.ULE(np.z(), data.len.z())))
        I.store_ref(args[1], np)
        name = Agg('Name', (VecV(()),))
        return Ok(name)
    ctx.assume(z3.And(z3.UGE(np.z(), old.z()), z3.Or(z3.ULE(np.z(), data.len.z()), np.z() == old.z())))
    I.store_ref(args[1], np)
    return Err(En('SimpleDnsError', 'InsufficientData'))


NAME_HOOK = {r'^<(?:\w+::)*Name as WireFormat>::parse$': name_contract_stub}


def run_task(prog, tid, params, tier):
    L = params['L']
    f = [f for t, f in prog.methods[('Packet', 'parse')] if t is None][0]
    syms = X.sym_bytes('m', L)
    if L > 12:
        # the flags word only feeds Header (decided for all 2^16 values by the Kani C08 harnesses and by task L12);
        # fixing it here removes a 78-fold opcode x rcode path multiplication from the section parsing
        syms[2] = mk('u8', 0)
        syms[3] = mk('u8', 0)
    stats = {}
    covers = {'ok': 0, 'err': 0}

    def run(I):
        return I.call_function(f, [X.byte_buffer(I, syms)], {})

    def on_path(res):
        I = res.interp
        if res.kind == 'panic':
            m = res.ctx.model()
            return {'status': 'violation', 'role': 'panic', 'detail': 'Packet::parse panics: ' + res.msg,
                    'cex': {'entry': 'packet_parse', 'bytes': X.model_bytes(m, syms), 'expect': {'outcome': 'panic'}}}
        if res.kind == 'bound':
            # a section loop consumes at least 5 bytes per entry and L <= 25: 40 iterations of any loop cannot happen on a run
            # that makes progress (Name::parse is replaced by its contract beyond the header) - replayed under the watchdog
            m = res.ctx.model()
            return {'status': 'violation', 'role': 'hang', 'detail': 'Packet::parse does not terminate within the loop bound: ' + res.msg,
                    'cex': {'entry': 'packet_parse', 'bytes': X.model_bytes(m, syms), 'expect': {'outcome': 'hang'}}}
        if res.kind != 'return':
            return None
        covers['ok' if res.value.var == 'Ok' else 'err'] += 1
        if res.value.var == 'Ok' and L >= 12:
            # C05: the sections returned correspond one-to-one to the header counts (an OPT record is lifted out of the
            # additional section and counted once)
            p = res.value.f[0]
            opt = 1 if p.f[0].f[4].var == 'Some' else 0
            got = [len(p.f[1].items), len(p.f[2].items), len(p.f[3].items), len(p.f[4].items) + opt]
            conds = []
            for k in range(4):
                cnt = z3.Concat(syms[4 + 2 * k].z(), syms[5 + 2 * k].z())
                conds.append(cnt != got[k])
            if res.ctx.check(z3.Or(conds)):
                m = res.ctx.solver.model()
                return {'status': 'violation', 'role': 'counts', 'detail': 'Packet::parse accepts a message but returns %r entries, '
                        'different from the header counts (counts running past the end must be rejected)' % (got,),
                        'cex': {'entry': 'packet_counts', 'bytes': X.model_bytes(m, syms), 'expect': {'any_failure': True}}}
        total = mk('usize', 0)
        for ev in I.events:
            if ev[0] == 'alloc':
                total = I.binop('Add', total, ev[2])
        if res.ctx.check(z3.UGT(total.z(), L)):
            m = res.ctx.solver.model()
            return {'status': 'violation', 'role': 'alloc',
                    'detail': 'Vec::with_capacity requests during parsing exceed the message length (%s)' % [e[1] for e in I.events if e[0] == 'alloc'][:4],
                    'cex': {'entry': 'packet_parse_alloc', 'bytes': X.model_bytes(m, syms), 'expect': {'outcome': 'alloc'}}}
        return None

    v = X.explore(prog, run, on_path, loop_bound=40, stats=stats, timeout_ms=60000, max_paths=400000,
                  time_budget=params.get('budget', 1500), hooks=NAME_HOOK if L > 12 else None)
    out = {'paths': stats.get('paths', 0), 'queries': stats.get('queries', 0), 'solver_s': stats.get('solver_s', 0.0),
           'outcomes': stats.get('outcomes', {}), 'functions': stats.get('functions', set()), 'covers': covers,
           'covers_witnessed': sum(1 for c in covers.values() if c)}
    if v is not None:
        out.update(v)
    elif 'truncated' in stats:
        out['status'] = 'inconclusive'
        out['detail'] = 'truncated: ' + stats['truncated']
    elif L >= 12 and not covers['ok']:
        out['status'] = 'inconclusive'
        out['detail'] = 'vacuous: no accepted message'
    return out
