"""Name::parse bounded runs: no panic (C01.name.run) and equivalence with an RFC 1035 4.1.4 reference
decoder (C06.equiv).  Buffer bytes and the start offset are fully symbolic; one task per buffer length."""
import z3
from ..values import *
from .. import explore as X

CRATE = 'simple-dns'


def tasks(tier, params):
    lmax = params.get('L_thorough', 8) if tier == 'thorough' else params.get('L_quick', 6)
    n = params.get('N_thorough', 12) if tier == 'thorough' else params.get('N_quick', 8)
    # loop bound N = max(8/12, L+3).  A path that reaches it is examined: legal pointer cycles re-read labels and therefore
    # increase name_size (they stop at the 255-octet budget); at most L strictly-backwards hops fit between two label steps,
    # so a path whose last L+2 loop-head visits left name_size unchanged makes no progress and is a termination violation
    out = [('L%d' % L, {'L': L, 'N': max(n, L + 3), 'mode': params.get('mode', 'equiv')}) for L in range(0, lmax + 1)]
    if params.get('mode', 'equiv') == 'equiv':
        for k, (lay, start) in enumerate(big_layouts()):
            out.append(('big%d' % k, {'L': len(lay), 'N': 140, 'mode': 'equiv', 'layout': lay, 'start': start}))
    return out


def big_layouts():
    """boundary shapes: structure octets concrete, label contents symbolic ('s').  63/64-byte labels and
    254/255/256-byte names, written out and reached through a compression pointer."""
    def name(lens, end=(0,)):
        lay = []
        for l in lens:
            lay.append(l)
            lay += ['s'] * l
        return lay + list(end)
    outs = []
    for lens in ([63], [64], [63, 63, 63, 61], [63, 63, 63, 62], [63, 63, 63, 60], [63, 63, 63, 63], [1] * 127, [1] * 128):
        outs.append((name(lens), 0))
    base = name([63, 63, 63, 59])                 # 253 octets at offset 0
    for extra in ([1], [2], [1, 1]):
        lay = base + name(extra, end=(0xC0, 0))
        outs.append((lay, len(base)))
    # pointer into the middle of the base name, and a two-hop chain
    lay = base + [0xC0, 64] + [0xC0, len(base)]
    outs.append((lay, len(base) + 2))
    # a fully symbolic length / type octet ('b') followed by enough bytes for any length it could announce: all 256 values of
    # the octet, i.e. every label length 1..63, the two reserved label types 0x40.. / 0x80.. and a pointer
    outs.append((['b'] + [0] * 192, 0))
    outs.append(([1, 's', 'b'] + [0] * 192, 0))
    return outs


# ----------------------------------------------------------------------------- reference decoder
def ref_decode(I, syms, pos, bound):
    """RFC 1035 4.1.4, written from the RFC.  Forks through I.ctx like the code under test.
    returns ('ok', [(start Sc, len Sc)], end Sc) | ('err',) | ('bound',)"""
    ctx = I.ctx
    L = len(syms)
    p = pos
    labels = []
    total = mk('usize', 0)          # wire length of the expanded name so far (without the root octet)
    end = None
    for _ in range(bound):
        if not ctx.branch(I.binop('Lt', p, mk('usize', L))):
            return ('err',)
        b = I.select(syms, p)
        bz = b.z()
        k = ctx.decide([bz == 0,
                        (bz & 0xC0) == 0xC0,
                        z3.And((bz & 0xC0) != 0, (bz & 0xC0) != 0xC0),
                        z3.And(bz != 0, (bz & 0xC0) == 0)])
        if k == 0:
            # root label: the expanded name is total+1 octets
            if ctx.branch(I.binop('Gt', I.binop('Add', total, mk('usize', 1)), mk('usize', 255))):
                return ('err',)
            if end is None:
                end = I.binop('Add', p, mk('usize', 1))
            return ('ok', labels, end)
        if k == 1:
            p1 = I.binop('Add', p, mk('usize', 1))
            if not ctx.branch(I.binop('Lt', p1, mk('usize', L))):
                return ('err',)
            lo = I.select(syms, p1)
            off = I.binop('BitOr',
                          I.binop('Shl', I.cast_int(I.binop('BitAnd', b, mk('u8', 0x3F)), 'usize'), mk('usize', 8)),
                          I.cast_int(lo, 'usize'))
            if end is None:
                end = I.binop('Add', p, mk('usize', 2))
            # a pointer must point strictly backwards (to a prior occurrence)
            if not ctx.branch(I.binop('Lt', off, p)):
                return ('err',)
            p = off
            continue
        if k == 2:
            return ('err',)          # label types 01 / 10 are reserved
        ln = I.cast_int(b, 'usize')
        stop = I.binop('Add', I.binop('Add', p, mk('usize', 1)), ln)
        if ctx.branch(I.binop('Gt', stop, mk('usize', L))):
            return ('err',)
        total = I.binop('Add', total, I.binop('Add', ln, mk('usize', 1)))
        if ctx.branch(I.binop('Gt', I.binop('Add', total, mk('usize', 1)), mk('usize', 255))):
            return ('err',)
        labels.append((I.binop('Add', p, mk('usize', 1)), ln))
        p = stop
    return ('bound',)


def label_views(I, name):
    """Name value -> [(start Sc, len Sc)] of its labels (all borrowed from the parse buffer)"""
    out = []
    labels = name.f[0]
    for lab in labels.items:
        cow = lab.f[0]
        s = cow.f[0]
        if not isinstance(s, SliceRef):
            raise Unsupported("label is not a borrowed slice")
        out.append((s.start, s.len))
    return out


def run_task(prog, tid, params, tier):
    L, N, mode = params['L'], params['N'], params['mode']
    f = prog.methods[('Name', 'parse')][0][1]
    if 'layout' in params:
        syms = [sym('b%d' % i, 'u8') if v in ('s', 'b') else mk('u8', v) for i, v in enumerate(params['layout'])]
        pos0 = mk('usize', params['start'])
    else:
        syms = X.sym_bytes('b', L)
        pos0 = sym('pos', 'usize')
    stats = {}
    covers = {'ok': 0, 'err': 0, 'pointer_ok': 0}
    found = {}

    def run(I):
        buf = X.byte_buffer(I, syms)
        if not pos0.concrete:
            I.ctx.assume(z3.ULE(pos0.z(), L))
        cell = Cell(pos0, 'pos')
        from .name_step import find_loop_head, local_of
        I.watch = (f, find_loop_head(f), local_of(f, 'name_size'))
        r = I.call_function(f, [buf, Ref(cell)], {})
        I.real = (r, cell.v)
        if mode == 'equiv':
            I.ref = ref_decode(I, syms, pos0, N)
        return r

    def cex(res, detail, expect):
        m = res.ctx.model()
        bs = X.model_bytes(m, syms)
        p = pos0.e if pos0.concrete else m.eval(pos0.z(), model_completion=True).as_long()
        return {'status': 'violation', 'detail': detail, 'role': 'any',
                'cex': {'entry': 'name_parse', 'bytes': bs, 'pos': p, 'expect': expect}}

    def on_path(res):
        I = res.interp
        if res.kind == 'panic':
            return cex(res, 'Name::parse panics: ' + res.msg, {'outcome': 'panic'})
        if res.kind == 'bound' and 'layout' not in params:
            log = [v for v in res.interp.watch_log if isinstance(v, Sc)]
            tail = log[-(L + 2):]
            if len(tail) == L + 2 and not res.ctx.check(tail[0].z() != tail[-1].z()):
                return cex(res, 'Name::parse makes no progress: name_size unchanged over %d loop iterations (pointer cycle, %s)'
                           % (L + 2, res.msg), {'outcome': 'hang'})
        if res.kind != 'return':
            return None
        r, endpos = I.real
        if mode != 'equiv':
            covers['ok' if r.var == 'Ok' else 'err'] += 1
            return None
        ref = I.ref
        if ref[0] == 'bound':
            stats['outcomes']['bound'] = stats['outcomes'].get('bound', 0) + 1
            return None
        if r.var == 'Ok':
            covers['ok'] += 1
            if ref[0] != 'ok':
                return cex(res, 'Name::parse accepts a name the RFC 1035 decoder rejects', {'outcome': 'ok'})
            mine = label_views(I, r.f[0])
            theirs = ref[1]
            if len(mine) != len(theirs):
                m = res.ctx.model()
                return cex(res, 'label count differs from the RFC decoder (%d vs %d)' % (len(mine), len(theirs)),
                           {'differs': {'n_labels': len(theirs)}})
            diffs = [endpos.z() != ref[2].z()]
            for (s1, l1), (s2, l2) in zip(mine, theirs):
                diffs.append(s1.z() != s2.z())
                diffs.append(l1.z() != l2.z())
                # RFC limits
                diffs.append(z3.UGT(l1.z(), 63))
                diffs.append(l1.z() == 0)
            if res.ctx.check(z3.Or(diffs)):
                m = res.ctx.solver.model()
                bs = X.model_bytes(m, syms)
                p = pos0.e if pos0.concrete else m.eval(pos0.z(), model_completion=True).as_long()
                ev = lambda sc: sc.e if sc.concrete else m.eval(sc.z(), model_completion=True).as_long()
                ref_labels = [''.join('%02x' % b for b in bs[ev(s):ev(s) + ev(l)]) for s, l in theirs]
                return {'status': 'violation', 'detail': 'labels / resume position differ from the RFC 1035 decoder',
                        'role': 'any',
                        'cex': {'entry': 'name_parse', 'bytes': bs, 'pos': p,
                                'expect': {'differs': {'outcome': 'ok', 'labels': ref_labels, 'end': ev(ref[2])}}}}
            if any(True for _ in mine) and len(res.ctx.made) and False:
                pass
        else:
            covers['err'] += 1
            if ref[0] == 'ok':
                m = res.ctx.model()
                bs = X.model_bytes(m, syms)
                ev = lambda sc: m.eval(sc.z(), model_completion=True).as_long()
                ref_labels = [''.join('%02x' % b for b in bs[ev(s):ev(s) + ev(l)]) for s, l in ref[1]]
                return cex(res, 'Name::parse rejects a name the RFC 1035 decoder accepts', {'outcome': 'err'})
        return None

    v = X.explore(prog, run, on_path, loop_bound=N, stats=stats, timeout_ms=60000)
    out = {'paths': stats.get('paths', 0), 'queries': stats.get('queries', 0), 'solver_s': stats.get('solver_s', 0.0),
           'outcomes': stats.get('outcomes', {}), 'functions': stats.get('functions', set()),
           'covers': covers, 'covers_witnessed': sum(1 for c in covers.values() if c),
           'bound_ok': 'paths cut at the loop bound are backwards-pointer cycles longer than N iterations: each is checked for progress '
                       '(name_size grows, so the 255-octet budget ends it); comparing their final verdict with the reference decoder is outside the bound'}
    if 'truncated' in stats:
        out['status'] = 'inconclusive'
        out['detail'] = 'exploration truncated: ' + stats['truncated']
        return out
    if v is not None:
        out.update(v)
        return out
    # vacuity: from length 1 on both an accepting and a rejecting path must exist
    if 'layout' in params:
        if not (covers['ok'] or covers['err']):
            out['status'] = 'inconclusive'
            out['detail'] = 'vacuous'
    elif L >= 1 and not (covers['ok'] and covers['err']):
        out['status'] = 'inconclusive'
        out['detail'] = 'vacuous: covers %r' % (covers,)
    return out
