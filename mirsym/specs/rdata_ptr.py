"""C06 inside RDATA: a compression pointer in a name carried by RDATA is an offset from the first byte of the MESSAGE.

For every record type whose RDATA contains a domain name (also the types a sender must not compress - a receiver still
follows pointers), the message

    header | question  <q-name: 2 labels, symbolic bytes>  A IN | record: owner = pointer to offset 12, TYPE t,
    RDATA = fixed fields (symbolic) / empty strings / every name = the 2-byte pointer C0 0C

is parsed with the real Packet::parse (real Name::parse).  It must be accepted and every Name found in the parsed RDATA
must be label-wise equal to the question name.  A second variant points at the second label of the question name (C0 0F)
and expects the one-label suffix."""
import z3
from ..values import *
from .. import explore as X
from .valuegen import S, be_bytes
from .rr_roundtrip import deep_eq

CRATE = 'simple-dns'


def name_types():
    out = []
    for t in S.TYPES:
        base = S.BY_NAME['SVCB'] if t.wrapper == 'SVCB' else t
        if t.wrapper == 'name' or any(k == 'name' for _, k in base.fields) or t.name in ('NSEC', 'SVCB', 'HTTPS', 'IPSECKEY'):
            out.append(t)
    return out


def tasks(tier, params):
    return [(t.name, {'type': t.name}) for t in name_types()]


def rdata_with_pointers(t, ptr, fresh):
    """RDATA bytes of type t with every name replaced by the pointer `ptr`"""
    base = S.BY_NAME['SVCB'] if t.wrapper == 'SVCB' else t
    if t.wrapper == 'name':
        return list(ptr)
    if base.name == 'NSEC':
        return list(ptr)                                     # next domain name, no type bitmap windows
    if base.name == 'SVCB':
        return be_bytes(fresh('u16', 'prio')) + list(ptr)    # priority, target, no parameters
    if base.name == 'IPSECKEY':
        return [fresh('u8', 'prec'), mk('u8', 3), fresh('u8', 'alg')] + list(ptr)      # gateway type 3 = domain name, empty key
    out = []
    for fname, kind in base.fields:
        if kind == 'name':
            out += list(ptr)
        elif kind == 'cstr':
            out += [mk('u8', 0)]
        elif kind == 'rest':
            pass
        else:
            w = S.WIDTH[kind]
            out += [fresh('u8', '%s%d' % (fname, i)) for i in range(w)]
    return out


def names_in(v, acc):
    if isinstance(v, Agg) and v.ty == 'Name':
        acc.append(v)
    elif isinstance(v, (Agg, En)):
        for x in v.f:
            names_in(x, acc)
    elif isinstance(v, VecV):
        for x in v.items:
            names_in(x, acc)
    elif isinstance(v, MapV):
        for k, x in v.entries:
            names_in(k, acc)
            names_in(x, acc)
    return acc


def run_task(prog, tid, params, tier):
    t = S.BY_NAME[params['type']]
    f_parse = [f for tr, f in prog.methods[('Packet', 'parse')] if tr is None][0]
    agg = {'paths': 0, 'queries': 0, 'solver_s': 0.0, 'outcomes': {}, 'functions': set(), 'covers': {'accepted': 0}}
    for vname, off, nlabels in (('whole', 12, 2), ('suffix', 15, 1)):
        stats = {}
        syms = {}

        def fresh(ty, n):
            s = sym('%s_%s' % (n, vname), ty)
            syms[n] = s
            return s
        l1 = [fresh('u8', 'a0'), fresh('u8', 'a1')]
        l2 = [fresh('u8', 'b0')]
        qname = [mk('u8', 2)] + l1 + [mk('u8', 1)] + l2 + [mk('u8', 0)]            # offsets 12..17, second label at 15
        ptr = [mk('u8', 0xC0), mk('u8', off)]
        rd = rdata_with_pointers(t, ptr, fresh)
        msg = be_bytes(fresh('u16', 'id')) + [mk('u8', 0)] * 2 + be_bytes(mk('u16', 1)) + be_bytes(mk('u16', 1)) + [mk('u8', 0)] * 4
        msg += qname + be_bytes(mk('u16', 1)) + be_bytes(mk('u16', 1))
        msg += [mk('u8', 0xC0), mk('u8', 12)] + be_bytes(mk('u16', t.code)) + be_bytes(mk('u16', 1)) + be_bytes(fresh('u32', 'ttl')) + \
            be_bytes(mk('u16', len(rd))) + rd
        want = [l1, l2][2 - nlabels:]

        def run(I):
            return I.call_function(f_parse, [X.byte_buffer(I, msg)], {})

        def on_path(res):
            I = res.interp

            def viol(role, what):
                m = res.ctx.model()
                exp = ''.join('%02x' % m.eval(b.z(), model_completion=True).as_long() for lab in want for b in [mk('u8', len(lab))] + lab)
                return {'status': 'violation', 'role': role, 'detail': '%s (%s pointer): %s' % (tid, vname, what),
                        'cex': {'entry': 'rdata_names', 'bytes': X.model_bytes(m, msg), 'want': exp, 'expect': {'any_failure': True}}}
            if res.kind == 'panic':
                return viol('panic', 'Packet::parse panics: ' + res.msg)
            if res.kind != 'return':
                return None
            r = res.value
            if r.var != 'Ok':
                return viol('rejected', 'a well-formed message whose RDATA name is a pointer to the question name is rejected')
            agg['covers']['accepted'] += 1
            ans = list(r.f[0].f[2].items)
            if len(ans) != 1:
                return viol('count', '%d answers' % len(ans))
            found = names_in(ans[0].f[3], [])
            if not found:
                return viol('no-name', 'no domain name in the parsed RDATA')
            for nm in found:
                labs = list(nm.f[0].items)
                ok = len(labs) == len(want)
                if ok:
                    conds = []
                    for lab, w in zip(labs, want):
                        bs = I.seq_list(lab.f[0].f[0] if isinstance(lab.f[0], En) else lab.f[0])
                        if len(bs) != len(w):
                            ok = False
                            break
                        conds += [a.z() != b.z() for a, b in zip(bs, w)]
                    if ok and conds and res.ctx.check(z3.Or(conds)):
                        ok = False
                if not ok:
                    return viol('rdata-name', 'a name inside the RDATA does not expand to the name its pointer designates '
                                '(pointers are offsets from the first byte of the message)')
            return None
        v = X.explore(prog, run, on_path, loop_bound=24, stats=stats, timeout_ms=60000, max_paths=20000)
        agg['paths'] += stats.get('paths', 0)
        agg['queries'] += stats.get('queries', 0)
        agg['solver_s'] += stats.get('solver_s', 0.0)
        for k_, n_ in stats.get('outcomes', {}).items():
            agg['outcomes'][k_] = agg['outcomes'].get(k_, 0) + n_
        agg['functions'].update(stats.get('functions', ()))
        if v is not None:
            agg.update(v)
            return agg
        if 'truncated' in stats:
            agg['status'] = 'inconclusive'
            agg['detail'] = 'truncated'
            return agg
    agg['covers_witnessed'] = 1 if agg['covers']['accepted'] else 0
    if not agg['covers']['accepted']:
        agg['status'] = 'inconclusive'
        agg['detail'] = 'vacuous: the message is never accepted'
    return agg
