"""C16: owned copies equal originals and serialise identically; equality implies equal hash streams.
 owned.<T> : for a record built from parts AND for the record parsed (borrowing) from its reference bytes:
             clone() and into_owned() are field-wise equal to the original (real PartialEq::eq says true as well)
             and write_to gives identical bytes
 hash.<T>  : two records of the same shape with independent symbolic contents: whenever the real PartialEq::eq
             returns true the byte streams fed to the Hasher by the real Hash::hash are identical
 (names, labels, character-strings and RDATA values are covered through the records that contain them)"""
import z3
from ..values import *
from .. import explore as X
from . import valuegen as VG
from .valuegen import S
from .rr_roundtrip import build_record, deep_eq, fn

CRATE = 'simple-dns'


def tasks(tier, params):
    out = []
    for t in S.TYPES:
        out.append(('owned.' + t.name, {'part': 'owned', 'type': t.name}))
        out.append(('hash.' + t.name, {'part': 'hash', 'type': t.name}))
    out.append(('owned.NULL', {'part': 'owned', 'type': 'NULL'}))
    out.append(('hash.NULL', {'part': 'hash', 'type': 'NULL'}))
    return out


def stream_eq(a, b):
    if len(a) != len(b):
        return z3.BoolVal(False)
    c = []
    for (k1, t1, v1), (k2, t2, v2) in zip(a, b):
        if k1 != k2 or t1 != t2:
            return z3.BoolVal(False)
        c.append(v1.z() == v2.z())
    return z3.And([z3.BoolVal(True)] + c)


def run_task(prog, tid, params, tier):
    tname, part = params['type'], params['part']
    shapes = [{'rest': 2}] if tname == 'NULL' else VG.shapes_for(S.BY_NAME[tname], 'quick')
    shapes = VG.pick([s for s in shapes if not s.get('skip_eq')], 4 if tier == 'quick' else 8)
    f_write = fn(prog, 'ResourceRecord', 'write_to')
    f_parse = fn(prog, 'ResourceRecord', 'parse')
    f_clone = fn(prog, 'ResourceRecord', 'clone', 'Clone')
    f_eq = fn(prog, 'ResourceRecord', 'eq', 'PartialEq')
    f_hash = fn(prog, 'ResourceRecord', 'hash', 'Hash')
    f_owned = [f for t, f in prog.methods[('ResourceRecord', 'into_owned')] if t is None][0]
    agg = {'paths': 0, 'queries': 0, 'solver_s': 0.0, 'outcomes': {}, 'functions': set(), 'covers_witnessed': 0}
    for shape in shapes:
        stats = {}
        done = [0]

        if part == 'owned':
            def run(I):
                rr, expected, rust, g = build_record(prog, I, tname, shape)
                I.case = (rr, expected, rust)
                out = []
                buf = X.byte_buffer(I, expected, 'wire')
                pos = Cell(mk('usize', 0), 'pos')
                parsed = I.call_function(f_parse, [buf, Ref(pos)], {})
                variants = [('built', rr)]
                if parsed.var == 'Ok':
                    variants.append(('parsed', parsed.f[0]))
                for label, v in variants:
                    ref = I.new_ref(v, 'v')
                    cl = I.call_function(f_clone, [ref], {})
                    ow = I.call_function(f_owned, [v], {})
                    for what, w in (('clone', cl), ('into_owned', ow)):
                        sink = Cell(VecV(()), 'sink')
                        wr = I.call_function(f_write, [I.new_ref(w, 'w'), Ref(sink)], {'T': 'Vec<u8>'})
                        eq_real = I.call_function(f_eq, [I.new_ref(w, 'w2'), ref], {})
                        out.append((label, what, w, v, wr, list(sink.v.items), eq_real))
                return out

            def on_path(res):
                I = res.interp
                rr, expected, rust = getattr(I, 'case', (None, None, None))

                def viol(role, what):
                    m = res.ctx.model()
                    from .rr_roundtrip import rust_case
                    code = rust_case(rust, expected, m).replace('let mut fails: Vec<&str> = Vec::new();', '''let mut fails: Vec<&str> = Vec::new();
        {
            let c = rr.clone();
            let o = rr.clone().into_owned();
            let mut b1 = Vec::new(); let mut b2 = Vec::new();
            let _ = c.write_to(&mut b1); let _ = o.write_to(&mut b2);
            if !(c == rr && c.ttl == rr.ttl && c.cache_flush == rr.cache_flush) { fails.push("clone"); }
            if !(o == rr && o.ttl == rr.ttl && o.cache_flush == rr.cache_flush) { fails.push("into_owned"); }
            if b1 != expected || b2 != expected { fails.push("owned-bytes"); }
            let mut pos0 = 0usize;
            if let Ok(pp) = ResourceRecord::parse(expected, &mut pos0) {
                let po = pp.clone().into_owned();
                let mut b3 = Vec::new(); let _ = po.write_to(&mut b3);
                if !(po == rr && po.ttl == rr.ttl && po.cache_flush == rr.cache_flush) || b3 != expected { fails.push("parsed-into_owned"); }
            }
        }''')
                    return {'status': 'violation', 'role': role, 'detail': '%s shape %r: %s' % (tname, shape, what),
                            'cex': {'entry': 'rust_test', 'code': code, 'expect': {'any_failure': True}}}
                if res.kind == 'panic':
                    return viol('panic', 'panic: ' + res.msg)
                if res.kind != 'return':
                    return None
                for label, what, w, v, wr, bytes_, eq_real in res.value:
                    if res.ctx.check(z3.Not(deep_eq(I, w, v))):
                        return viol(what, '%s of the %s record is not field-wise equal to it' % (what, label))
                    if res.ctx.check(z3.Not(zbool(eq_real))):
                        return viol(what, '%s of the %s record does not compare equal (PartialEq)' % (what, label))
                    if wr.var != 'Ok' or len(bytes_) != len(expected) or \
                            res.ctx.check(z3.Or([z3.BoolVal(False)] + [a.z() != b.z() for a, b in zip(bytes_, expected)])):
                        return viol('owned-bytes', '%s of the %s record serialises differently' % (what, label))
                done[0] += 1
                return None
        else:
            def run(I):
                I.hash_order_fixed = True
                a, _, rust_a, ga = build_record(prog, I, tname, shape)
                # second record: same shape, independent symbols
                VG_prefix = VG.Gen.__init__
                b, _, rust_b, gb = build_record_b(prog, I, tname, shape)
                ra, rb = I.new_ref(a, 'a'), I.new_ref(b, 'b')
                e = I.call_function(f_eq, [ra, rb], {})
                ha, hb = Cell(HasherV(), 'ha'), Cell(HasherV(), 'hb')
                I.call_function(f_hash, [ra, Ref(ha)], {})
                I.call_function(f_hash, [rb, Ref(hb)], {})
                I.rust_ab = (rust_a, rust_b)
                return e, ha.v.stream, hb.v.stream

            def on_path(res):
                if res.kind == 'panic':
                    return {'status': 'violation', 'role': 'panic', 'detail': '%s: eq/hash panics: %s' % (tname, res.msg),
                            'cex': {'entry': 'no-native-entry'}}
                if res.kind != 'return':
                    return None
                e, sa, sb = res.value
                done[0] += 1
                if res.ctx.check(z3.And(zbool(e), z3.Not(stream_eq(sa, sb)))):
                    m = res.ctx.solver.model()
                    ra_, rb_ = res.interp.rust_ab
                    code = HASH_TEST % (ra_(m), rb_(m))
                    return {'status': 'violation', 'role': 'hash', 'detail': '%s shape %r: two records compare equal but feed different '
                            'byte streams to the hasher' % (tname, shape),
                            'cex': {'entry': 'rust_test', 'code': code, 'expect': {'any_failure': True}}}
                return None
        v = X.explore(prog, run, on_path, loop_bound=600, stats=stats, timeout_ms=60000)
        agg['paths'] += stats.get('paths', 0)
        agg['queries'] += stats.get('queries', 0)
        agg['solver_s'] += stats.get('solver_s', 0.0)
        for k_, n_ in stats.get('outcomes', {}).items():
            agg['outcomes'][k_] = agg['outcomes'].get(k_, 0) + n_
        agg['functions'].update(stats.get('functions', ()))
        if v is not None:
            agg.update(v)
            return agg
        if done[0]:
            agg['covers_witnessed'] += 1
    if agg['covers_witnessed'] != len(shapes):
        agg['status'] = 'inconclusive'
        agg['detail'] = 'vacuous: %d of %d shapes' % (agg['covers_witnessed'], len(shapes))
    return agg


HASH_TEST = r'''
use crate::dns::name::Label;
use crate::rdata::{self, RData};
use crate::{CharacterString, Name, ResourceRecord, CLASS};
use std::borrow::Cow;
use std::collections::hash_map::DefaultHasher;
use std::collections::HashSet;
use std::hash::{Hash, Hasher};

#[test]
fn verif_case() {
    let a = %s;
    let b = %s;
    let mut fails: Vec<&str> = Vec::new();
    if a == b {
        let (mut ha, mut hb) = (DefaultHasher::new(), DefaultHasher::new());
        a.hash(&mut ha);
        b.hash(&mut hb);
        if ha.finish() != hb.finish() { fails.push("hash"); }
        let mut set = HashSet::new();
        set.insert(a.clone());
        if !set.contains(&b) { fails.push("hash"); }
    }
    println!("REPLAY-RESULT {{\"outcome\":\"ok\",\"fails\":[{}]}}", fails.iter().map(|s| format!("\"{}\"", s)).collect::<Vec<_>>().join(","));
}
'''


def build_record_b(prog, I, tname, shape):
    """a second record with its own symbol names"""
    orig = VG.Gen.__init__

    def init_b(self, prog_, ctx, prefix='v'):
        orig(self, prog_, ctx, prefix='w')
    VG.Gen.__init__ = init_b
    try:
        return build_record(prog, I, tname, shape)
    finally:
        VG.Gen.__init__ = orig
