"""C15 (the central chain, end to end on the real MIR): an instance description is announced and discovered faithfully.

  info --InstanceInformation::into_records(full name, ttl)--> records
       --Packet (answers) --build_bytes_vec_compressed--> bytes --Packet::parse--> records'
       --InstanceInformation::from_records(service name, records')--> info'

 records : exactly one A record per IPv4 address, one AAAA per IPv6 address, one SRV per port, one TXT; every owner is the
           full instance name, class IN, the requested TTL
 info'   : same instance name, same address set, same port set, same attribute map (keys per RFC 6763: at least one
           character, no '='; values absent / empty / non-empty)
Instance label, service labels, addresses, ports, TTL, attribute keys and values are symbolic; the member counts are the
shape.  Every iteration order of the three hash containers is explored (into_records emits in iteration order)."""
import z3
from ..values import *
from .. import explore as X
from ..models_coll import to_iter
from . import valuegen as VG
from .rr_roundtrip import deep_eq
from .mdns_store import inherent

CRATE = 'simple-mdns'

# (IPv4 addresses, IPv6 addresses, ports, attribute value kinds)
SHAPES_QUICK = [
    (0, 0, 0, []),                       # an instance with nothing but its name: the attribute map must come back EMPTY
    (1, 0, 1, ['val']),
    (2, 0, 1, []),
    (1, 1, 2, ['none', 'empty']),
    (0, 2, 0, ['val', 'none']),
]
SHAPES_THOROUGH = SHAPES_QUICK + [
    (2, 1, 2, ['val', 'empty']),
    (0, 0, 1, ['empty']),
    (1, 0, 0, ['none', 'none']),
]


def tasks(tier, params):
    shapes = SHAPES_THOROUGH if tier == 'thorough' else SHAPES_QUICK
    return [('inst.v4_%d.v6_%d.p%d.%s' % (a, b, c, '-'.join(k) or 'noattr'), {'v4': a, 'v6': b, 'ports': c, 'attrs': k}) for a, b, c, k in shapes]


def ascii_label(ctx, bs, extra_forbidden=()):
    for b in bs:
        ctx.assume(z3.And(z3.UGE(b.z(), 0x21), z3.ULE(b.z(), 0x7E), b.z() != 0x2E, b.z() != 0x5C, *[b.z() != c for c in extra_forbidden]))


def run_task(prog, tid, params, tier):
    f_into = inherent(prog, 'InstanceInformation', 'into_records')
    f_from = inherent(prog, 'InstanceInformation', 'from_records')
    f_reply = inherent(prog, 'Packet', 'new_reply')
    f_comp = inherent(prog, 'Packet', 'build_bytes_vec_compressed')
    f_parse = inherent(prog, 'Packet', 'parse')
    stats = {}
    okp = [0]

    def run(I):
        g = I.g = VG.Gen(prog, I.ctx)
        ctx = I.ctx
        inst = [g.fresh('u8', 'inst') for _ in range(2)]
        s1 = [g.fresh('u8', 'sa') for _ in range(2)]
        s2 = [g.fresh('u8', 'sb') for _ in range(1)]
        for l in (inst, s1, s2):
            ascii_label(ctx, l)
        v4 = [[g.fresh('u8', 'ip4_%d' % k) for _ in range(4)] for k in range(params['v4'])]
        v6 = [[g.fresh('u8', 'ip6_%d' % k) for _ in range(16)] for k in range(params['v6'])]
        ports = [g.fresh('u16', 'port%d' % k) for k in range(params['ports'])]
        ttl = g.fresh('u32', 'ttl')
        attrs = []
        for k, kind in enumerate(params['attrs']):
            key = [g.fresh('u8', 'k%d' % k) for _ in range(2)]
            ascii_label(ctx, key, extra_forbidden=(0x3D,))
            val = None
            if kind == 'empty':
                val = []
            elif kind == 'val':
                val = [g.fresh('u8', 'v%d' % k) for _ in range(2)]
                for b in val:
                    ctx.assume(z3.And(z3.UGE(b.z(), 0x20), z3.ULE(b.z(), 0x7E)))      # '=' and '.' allowed inside values
            attrs.append((key, val))
        # members of a set are distinct
        for group in (v4, v6, [k for k, _ in attrs]):
            for i in range(len(group)):
                for j in range(i):
                    ctx.assume(z3.Or([x.z() != y.z() for x, y in zip(group[i], group[j])]))
        for i in range(len(ports)):
            for j in range(i):
                ctx.assume(ports[i].z() != ports[j].z())
        I.shape = dict(inst=inst, s1=s1, s2=s2, v4=v4, v6=v6, ports=ports, ttl=ttl, attrs=attrs)
        ips = [En('IpAddr', 'V4', (Agg('Ipv4Addr', (Agg('array', list(o)),)),)) for o in v4] + \
              [En('IpAddr', 'V6', (Agg('Ipv6Addr', (Agg('array', list(o)),)),)) for o in v6]
        info = g.struct('InstanceInformation', instance_name=VecV(inst, True),
                        ip_addresses=MapV('HashSet', [(x, UNIT) for x in ips]),
                        ports=MapV('HashSet', [(p, UNIT) for p in ports]),
                        attributes=MapV('HashMap', [(VecV(k, True), NONE if v is None else Some(VecV(v, True))) for k, v in attrs]))
        full, _ = g.name((2, 2, 1), 'full', label_bytes=[inst, s1, s2])
        service, _ = g.name((2, 1), 'svc', label_bytes=[s1, s2])
        I.full = full
        r = I.call_function(f_into, [info, I.new_ref(full, 'full'), ttl], {})
        out = {'into': r}
        if r.var != 'Ok':
            return out
        recs = list(r.f[0].items)
        out['recs'] = recs
        p = I.call_function(f_reply, [mk('u16', 7)], {})
        idx = prog.structs['Packet'].index('answers')
        p = Agg(p.ty, tuple(p.f[:idx]) + (VecV(recs),) + tuple(p.f[idx + 1:]))
        b = I.call_function(f_comp, [I.new_ref(p, 'pkt')], {})
        out['bytes'] = b
        if b.var != 'Ok':
            return out
        q = I.call_function(f_parse, [X.byte_buffer(I, list(b.f[0].items), 'wire')], {})
        out['parsed'] = q
        if q.var != 'Ok':
            return out
        pv = I.new_ref(q.f[0], 'parsed')
        recs2 = [Ref(pv.cell, pv.path + (idx, ('i', mk('usize', k)))) for k in range(len(q.f[0].f[idx].items))]
        out['recs2'] = list(q.f[0].f[idx].items)
        it = IterV('list', items=tuple(recs2), i=0)
        out['info2'] = I.call_function(f_from, [I.new_ref(service, 'svc'), it], {})
        return out

    def rust_case(res, m):
        sh = res.interp.shape
        ev = lambda b: VG.ev(m, b)
        s = lambda bs: '"%s"' % ''.join('\\u{%x}' % ev(b) for b in bs)
        L = ['#[test]', 'fn verif_case() {', '    use std::net::{IpAddr, Ipv4Addr, Ipv6Addr};', '    let mut fails: Vec<&str> = Vec::new();',
             '    let mut info = crate::InstanceInformation::new(%s.to_string());' % s(sh['inst'])]
        for o in sh['v4']:
            L.append('    info = info.with_ip_address(IpAddr::V4(Ipv4Addr::new(%s)));' % ', '.join(str(ev(b)) for b in o))
        for o in sh['v6']:
            L.append('    info = info.with_ip_address(IpAddr::V6(Ipv6Addr::from([%s])));' % ', '.join('%du8' % ev(b) for b in o))
        for p in sh['ports']:
            L.append('    info = info.with_port(%d);' % ev(p))
        for k, v in sh['attrs']:
            L.append('    info = info.with_attribute(%s.to_string(), %s);' % (s(k), 'None' if v is None else 'Some(%s.to_string())' % s(v)))
        L += ['    let service = Name::new_unchecked(%s).into_owned();' % ('"%s.%s"' % (''.join('\\u{%x}' % ev(b) for b in sh['s1']), ''.join('\\u{%x}' % ev(b) for b in sh['s2']))),
              '    let full = Name::new_unchecked(%s).into_owned();' % ('"%s.%s.%s"' % tuple(''.join('\\u{%x}' % ev(b) for b in sh[x]) for x in ('inst', 's1', 's2'))),
              '    let ttl = %du32;' % ev(sh['ttl']),
              '    report(check_instance(info, &service, &full, ttl));', '}']
        return '\n'.join(L)

    def viol(res, role, what):
        m = res.ctx.model()
        cex = {'entry': 'mdns_test', 'task': tid, 'what': what, 'expect': {'any_failure': True}}
        try:
            cex['code'] = rust_case(res, m)
        except Exception as e:      # noqa
            cex['code_error'] = repr(e)
            cex['entry'] = 'mdns-no-replay'
        return {'status': 'violation', 'role': role, 'detail': '%s: %s' % (tid, what), 'cex': cex}

    def on_path(res):
        I = res.interp
        if res.kind == 'panic':
            return viol(res, 'panic', 'panic: ' + res.msg)
        if res.kind != 'return':
            return None
        o = res.value
        sh = I.shape
        chk = res.ctx.check
        if o['into'].var != 'Ok':
            return viol(res, 'into-err', 'into_records refuses a valid instance description')
        recs = o['recs']
        # ---- the announced record set
        kinds = [r.f[3].var for r in recs]
        want = {'A': len(sh['v4']), 'AAAA': len(sh['v6']), 'SRV': len(sh['ports']), 'TXT': 1}
        for k, n in want.items():
            if kinds.count(k) != n:
                return viol(res, 'records', 'into_records emits %d %s records for %d members' % (kinds.count(k), k, n))
        if len(recs) != sum(want.values()):
            return viol(res, 'records', 'into_records emits records of other kinds: %r' % (kinds,))
        for r in recs:
            if r.f[1].var != 'IN' or chk(r.f[2].z() != sh['ttl'].z()) or chk(z3.Not(deep_eq(I, r.f[0], I.full))):
                return viol(res, 'records', 'an announced record does not carry the full instance name / class IN / the requested TTL')

        def be(octs):
            return z3.Concat(*[b.z() for b in octs])
        for kind, members in (('A', sh['v4']), ('AAAA', sh['v6'])):
            rs = [r.f[3].f[0].f[0].z() for r in recs if r.f[3].var == kind]
            for o_ in members:
                if chk(z3.And([x != be(o_) for x in rs] + [z3.BoolVal(True)])):
                    return viol(res, 'records', 'address %s is not announced by an %s record with its value' % (kind, kind))
        srv = [r.f[3].f[0] for r in recs if r.f[3].var == 'SRV']
        sp = [s.f[prog_field(prog, 'SRV', 'port')].z() for s in srv]
        for p in sh['ports']:
            if chk(z3.And([x != p.z() for x in sp] + [z3.BoolVal(True)])):
                return viol(res, 'records', 'a port is not announced by an SRV record')
        # ---- the wire
        if o['bytes'].var != 'Ok':
            return viol(res, 'wire', 'the announcement cannot be serialised')
        if o['parsed'].var != 'Ok':
            return viol(res, 'wire', 'the serialised announcement is rejected by Packet::parse')
        # ---- discovery
        i2 = o['info2']
        if i2.var != 'Some':
            return viol(res, 'discover', 'from_records returns None for the announced records')
        i2 = i2.f[0]
        nm, ipset, portset, amap = i2.f[0], i2.f[1], i2.f[2], i2.f[3]
        if chk(z3.Not(I.seq_eq(nm, VecV(sh['inst'], True)))):
            return viol(res, 'name', 'the discovered instance name differs from the announced one')
        got_ips = [k for k, _ in ipset.entries]
        if len(got_ips) != len(sh['v4']) + len(sh['v6']):
            return viol(res, 'addresses', 'discovered %d addresses, announced %d' % (len(got_ips), len(sh['v4']) + len(sh['v6'])))
        for kind, members in (('V4', sh['v4']), ('V6', sh['v6'])):
            have = [be(I.container_items(ip.f[0].f[0])) if not isinstance(ip.f[0].f[0], Sc) else ip.f[0].f[0].z() for ip in got_ips if ip.var == kind]
            if len(have) != len(members):
                return viol(res, 'addresses', 'address family changed: %d %s addresses discovered, %d announced' % (len(have), kind, len(members)))
            for o_ in members:
                if chk(z3.And([x != be(o_) for x in have] + [z3.BoolVal(True)])):
                    return viol(res, 'addresses', 'an announced %s address is not in the discovered set' % kind)
        got_ports = [k for k, _ in portset.entries]
        if len(got_ports) != len(sh['ports']):
            return viol(res, 'ports', 'discovered %d ports, announced %d' % (len(got_ports), len(sh['ports'])))
        for p in sh['ports']:
            if chk(z3.And([x.z() != p.z() for x in got_ports] + [z3.BoolVal(True)])):
                return viol(res, 'ports', 'an announced port is not in the discovered set')
        if len(amap.entries) != len(sh['attrs']):
            return viol(res, 'attributes', 'discovered %d attributes, announced %d' % (len(amap.entries), len(sh['attrs'])))
        for key, val in sh['attrs']:
            alts = []
            for k2, v2 in amap.entries:
                same_k = I.seq_eq(k2, VecV(key, True))
                if val is None:
                    same_v = z3.BoolVal(v2.var == 'None')
                else:
                    same_v = I.seq_eq(v2.f[0], VecV(val, True)) if v2.var == 'Some' else z3.BoolVal(False)
                alts.append(z3.And(same_k, same_v))
            if chk(z3.Not(z3.Or(alts + [z3.BoolVal(False)]))):
                return viol(res, 'attributes', 'an announced attribute (%s value) is not discovered with the same key and value'
                            % ('absent' if val is None else ('empty' if not val else 'non-empty')))
        okp[0] += 1
        return None

    v = X.explore(prog, run, on_path, loop_bound=300, stats=stats, timeout_ms=60000, max_paths=20000, time_budget=900)
    out = {'paths': stats.get('paths', 0), 'queries': stats.get('queries', 0), 'solver_s': stats.get('solver_s', 0.0),
           'outcomes': stats.get('outcomes', {}), 'functions': stats.get('functions', set()),
           'covers': {'roundtrips': okp[0]}, 'covers_witnessed': 1 if okp[0] else 0}
    if v is not None:
        out.update(v)
    elif 'truncated' in stats:
        out['status'] = 'inconclusive'
        out['detail'] = 'truncated: ' + stats['truncated']
    elif not okp[0]:
        out['status'] = 'inconclusive'
        out['detail'] = 'vacuous: no path completed the chain'
    return out


def prog_field(prog, ty, name):
    return prog.structs[ty].index(name)
