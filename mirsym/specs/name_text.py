"""Textual name API (C17): Name::new validation vs the statement's grammar, display / re-create round trip,
is_subdomain_of / without / is_link_local vs label-list definitions.  All bytes symbolic (UTF-8 validity assumed
for &str arguments)."""
import z3
from ..values import *
from .. import explore as X
from ..models_coll import utf8_valid
from ..models_fmt import to_string_of
from . import valuegen as VG

CRATE = 'simple-dns'


def tasks(tier, params):
    lmax = 7 if tier == 'thorough' else 5
    out = [('new.L%d' % n, {'part': 'new', 'L': n}) for n in range(0, lmax + 1)]
    out += [('new.long%d' % k, {'part': 'newlong', 'k': k}) for k in range(4)]
    # the same names written with empty labels (repeated and trailing dots): the text is longer, the encoded name is not
    out += [('new.longdots%d' % k, {'part': 'newlong', 'k': k, 'dots': True}) for k in range(4)]
    kmax = 4 if tier == 'thorough' else 3
    for a in range(0, kmax + 1):
        for b in range(0, kmax + 1):
            out.append(('suffix.%d.%d' % (a, b), {'part': 'suffix', 'a': a, 'b': b}))
    out += [('local.%d' % n, {'part': 'local', 'n': n}) for n in (0, 1, 4, 5, 6)]
    return out


def inherent(prog, ty, m):
    c = [f for t, f in prog.methods.get((ty, m), []) if t is None]
    if len(c) != 1:
        raise Unsupported("cannot resolve %s::%s" % (ty, m))
    return c[0]


def alnum(b):
    return z3.Or(z3.And(z3.UGE(b, 48), z3.ULE(b, 57)), z3.And(z3.UGE(b, 65), z3.ULE(b, 90)),
                 z3.And(z3.UGE(b, 97), z3.ULE(b, 122)))


def label_ok(bs):
    """the statement's grammar for one label given as list of z3 bytes"""
    n = len(bs)
    if n == 0 or n > 63:
        return z3.BoolVal(False)
    c = [z3.Or(alnum(bs[0]), bs[0] == 95), alnum(bs[-1])]
    for b in bs[1:]:
        c.append(z3.Or(alnum(b), b == 45, b == 95))
    return z3.And(c)


def str_ref(I, syms):
    cell = Cell(Agg('array', syms), 'text')
    return SliceRef(Ref(cell), mk('usize', 0), mk('usize', len(syms)), True)


def labels_of(I, name):
    return [I.seq_list(l.f[0]) for l in name.f[0].items]


def run_task(prog, tid, params, tier):
    part = params['part']
    stats = {}
    covers = {'ok': 0, 'err': 0}
    f_new = inherent(prog, 'Name', 'new')

    def finish(v):
        out = {'paths': stats.get('paths', 0), 'queries': stats.get('queries', 0), 'solver_s': stats.get('solver_s', 0.0),
               'outcomes': stats.get('outcomes', {}), 'functions': stats.get('functions', set()), 'covers': covers,
               'covers_witnessed': sum(1 for c in covers.values() if c)}
        if v is not None:
            out.update(v)
        elif 'truncated' in stats or stats.get('outcomes', {}).get('bound'):
            out['status'] = 'inconclusive'
            out['detail'] = 'truncated/bound %r' % (stats.get('outcomes'),)
        elif not (covers['ok'] or covers['err']):
            out['status'] = 'inconclusive'
            out['detail'] = 'vacuous'
        return out

    def py_label_ok(b):
        al = lambda c: 48 <= c <= 57 or 65 <= c <= 90 or 97 <= c <= 122
        return 1 <= len(b) <= 63 and (al(b[0]) or b[0] == 95) and al(b[-1]) and all(al(c) or c in (45, 95) for c in b[1:])

    def text_case(res, syms, what):
        m = res.ctx.model()
        bs = X.model_bytes(m, syms)
        pieces = [p for p in bytes(bs).split(b'.') if p]
        ok = all(py_label_ok(p) for p in pieces) and sum(len(p) + 1 for p in pieces) + 1 <= 255
        if ok:
            exp = {'differs': {'outcome': 'ok', 'shown': b'.'.join(pieces).hex(), 'again': 'ok',
                               'labels': [p.hex() for p in pieces]}}
        else:
            exp = {'differs': {'outcome': 'err'}}
        return {'status': 'violation', 'role': what.split(':')[0], 'detail': what,
                'cex': {'entry': 'name_new', 'bytes': bs, 'expect': exp}}

    def suffix_case(res, la, lb, role, what, local=False):
        m = res.ctx.model()
        a = [bytes(VG.ev(m, x) for x in l) for l in la]
        b = [bytes(VG.ev(m, x) for x in l) for l in lb]
        sub = len(a) > len(b) and a[len(a) - len(b):] == b
        exp = {'outcome': 'ok', 'sub': sub, 'without': [x.hex() for x in a[:len(a) - len(b)]] if sub else None,
               'local': bool(a) and a[-1].lower() == b'local'}
        if not local:
            exp.pop('local')
        else:
            exp = {'outcome': 'ok', 'local': exp['local']}
        return {'status': 'violation', 'role': role, 'detail': what,
                'cex': {'entry': 'suffix', 'a': ','.join(x.hex() for x in a), 'b': ','.join(x.hex() for x in b),
                        'expect': {'differs': exp}}}

    if part in ('new', 'newlong'):
        if part == 'new':
            n = params['L']
            syms = X.sym_bytes('t', n)
            layout = None
        else:
            # names around the 255-octet limit: labels of 63 'symbolic' bytes separated by dots
            last = [59, 60, 61, 62][params['k']] + 1 - 1
            lens = [63, 63, 63, [60, 61, 62, 63][params['k']]]
            syms = []
            seps = ['', '..', '.', '...'] if params.get('dots') else ['', '.', '.', '.']
            for i, l in enumerate(lens):
                syms += [mk('u8', 46)] * len(seps[i])
                syms += [mk('u8', 97)] * l      # contents concrete: the label/name lengths are the point here
            if params.get('dots'):
                syms.append(mk('u8', 46))
            n = len(syms)

        def run(I):
            c = I.ctx
            c.assume(utf8_valid(syms))
            if part == 'newlong':
                # keep label bytes away from '.', the structure is the point here
                c.assume(z3.And([s.z() != 46 for s in syms if not s.concrete]))
            dots = [bool(s.e == 46) if s.concrete else c.branch(s.z() == 46) for s in syms]
            pieces, cur = [], []
            for s, d in zip(syms, dots):
                if d:
                    if cur:
                        pieces.append(cur)
                    cur = []
                else:
                    cur.append(s.z())
            if cur:
                pieces.append(cur)
            I.pieces = pieces
            r = I.call_function(f_new, [str_ref(I, syms)], {})
            I.result = r
            if r.var == 'Ok':
                name = r.f[0]
                s = to_string_of(I, I.new_ref(name, 'nm'))
                I.shown = list(s.items)
                r2 = I.call_function(f_new, [SliceRef(I.new_ref(s, 'shown'), mk('usize', 0), mk('usize', len(s.items)), True)], {})
                I.again = r2
            return r

        def on_path(res):
            I = res.interp
            if res.kind == 'panic':
                return text_case(res, syms, 'panic: ' + res.msg)
            if res.kind != 'return':
                return None
            pieces = I.pieces
            enc = sum(len(p) + 1 for p in pieces) + 1
            oracle = z3.And([label_ok(p) for p in pieces] + [z3.BoolVal(enc <= 255)])
            ok = I.result.var == 'Ok'
            covers['ok' if ok else 'err'] += 1
            if ok:
                if res.ctx.check(z3.Not(oracle)):
                    return text_case(res, syms, 'accept: Name::new accepts text outside the grammar / over 255 octets')
                labs = labels_of(I, I.result.f[0])
                if len(labs) != len(pieces) or any(len(a) != len(b) for a, b in zip(labs, pieces)):
                    return text_case(res, syms, 'labels: label split differs from the dot-separated non-empty pieces')
                diff = [x.z() != y for a, b in zip(labs, pieces) for x, y in zip(a, b)]
                if diff and res.ctx.check(z3.Or(diff)):
                    return text_case(res, syms, 'labels: label bytes differ from the text')
                # display = pieces joined by '.'
                want = []
                for i, p in enumerate(pieces):
                    if i:
                        want.append(z3.BitVecVal(46, 8))
                    want += p
                if len(I.shown) != len(want) or (want and res.ctx.check(z3.Or([a.z() != b for a, b in zip(I.shown, want)]))):
                    return text_case(res, syms, 'display: to_string() is not the labels joined by dots')
                if I.again.var != 'Ok':
                    return text_case(res, syms, 'recreate: Name::new(name.to_string()) fails')
                l2 = labels_of(I, I.again.f[0])
                if len(l2) != len(labs) or any(len(a) != len(b) for a, b in zip(l2, labs)):
                    return text_case(res, syms, 'recreate: re-created name differs')
            else:
                if res.ctx.check(oracle):
                    return text_case(res, syms, 'reject: Name::new rejects text inside the grammar')
            return None

        v = X.explore(prog, run, on_path, loop_bound=700, stats=stats, timeout_ms=60000)
        return finish(v)

    if part == 'suffix':
        f_sub = inherent(prog, 'Name', 'is_subdomain_of')
        f_wo = inherent(prog, 'Name', 'without')
        ka, kb = params['a'], params['b']

        def run(I):
            g = VG.Gen(prog, I.ctx)
            # every label is one symbolic byte (label equality is what matters) plus one two-byte label each
            a, _ = g.name(tuple([1] * ka), 'a')
            b, _ = g.name(tuple([1] * kb), 'b')
            I.a, I.b = a, b
            ra, rb = I.new_ref(a, 'a'), I.new_ref(b, 'b')
            sub = I.call_function(f_sub, [ra, rb], {})
            wo = I.call_function(f_wo, [ra, rb], {})
            return sub, wo

        def on_path(res):
            I = res.interp
            if res.kind == 'panic':
                return {'status': 'violation', 'role': 'panic', 'detail': 'suffix algebra panics: ' + res.msg,
                        'cex': {'entry': 'suffix', 'a': ka, 'b': kb, 'expect': {'any_failure': True}}}
            if res.kind != 'return':
                return None
            sub, wo = res.value
            la, lb = labels_of(I, I.a), labels_of(I, I.b)
            if ka > kb:
                oracle = z3.And([z3.BoolVal(True)] + [x[0].z() == y[0].z() for x, y in zip(la[ka - kb:], lb)])
            else:
                oracle = z3.BoolVal(False)
            covers['ok'] += 1
            if res.ctx.check(zbool(sub) != oracle):
                return suffix_case(res, la, lb, 'subdomain', 'is_subdomain_of disagrees with the label-list definition')
            # without: Some(leading labels) exactly when subdomain
            is_some = wo.var == 'Some'
            if res.ctx.check(z3.BoolVal(is_some) != oracle):
                return suffix_case(res, la, lb, 'without', 'without() is Some/None in the wrong case')
            if is_some:
                lw = labels_of(I, wo.f[0])
                lead = la[:ka - kb]
                if len(lw) != len(lead) or (lead and res.ctx.check(z3.Or([x[0].z() != y[0].z() for x, y in zip(lw, lead)]))):
                    return suffix_case(res, la, lb, 'without', 'without() does not return the leading labels')
            return None

        v = X.explore(prog, run, on_path, loop_bound=100, stats=stats, timeout_ms=60000)
        return finish(v)

    if part == 'local':
        f_ll = inherent(prog, 'Name', 'is_link_local')
        n = params['n']

        def run(I):
            g = VG.Gen(prog, I.ctx)
            shape = (1, n) if n else ()
            nm, _ = g.name(shape, 'l')
            I.nm = nm
            return I.call_function(f_ll, [I.new_ref(nm, 'nm')], {})

        def on_path(res):
            I = res.interp
            if res.kind != 'return':
                if res.kind == 'panic':
                    return {'status': 'violation', 'role': 'panic', 'detail': 'is_link_local panics: ' + res.msg,
                            'cex': {'entry': 'local', 'expect': {'any_failure': True}}}
                return None
            covers['ok'] += 1
            labs = labels_of(I, I.nm)
            if not labs or len(labs[-1]) != 5:
                oracle = z3.BoolVal(False)
            else:
                oracle = z3.And([z3.Or(b.z() == c, b.z() == c - 32) for b, c in zip(labs[-1], b'local')])
            if res.ctx.check(zbool(res.value) != oracle):
                return suffix_case(res, labs, [], 'link-local', 'is_link_local disagrees with "last label is local (any case)"', local=True)
            return None

        v = X.explore(prog, run, on_path, loop_bound=100, stats=stats, timeout_ms=60000)
        return finish(v)
    raise Unsupported(part)
