"""Typed RDATA parsers with loops (TXT, OPT, NSEC, SVCB, HTTPS) and the record envelope on fully symbolic bytes:
no panic, cursor stays inside the cut (C01.rdata.<T> for the types CBMC cannot unwind; C01.envelope)."""
import z3
from ..values import *
from .. import explore as X

CRATE = 'simple-dns'
LOOPING = ['TXT', 'OPT', 'NSEC', 'SVCB', 'HTTPS']


def tasks(tier, params):
    L = params.get('L_thorough', 8) if tier == 'thorough' else params.get('L_quick', 6)
    out = []
    for t in params.get('types', LOOPING):
        for l in range(1, L + 1):
            # OPT::parse starts at the TYPE field of its record (it takes the UDP size and version from CLASS and TTL): the
            # 10-byte fixed part comes on top of the l option-area bytes
            ll = l + 10 if t == 'OPT' else l
            out.append(('%s.L%d' % (t, ll), {'type': t, 'L': ll, 'N': 2 * ll + 4}))
    return out


def run_task(prog, tid, params, tier):
    t, L, N = params['type'], params['L'], params['N']
    cands = [f for tr, f in prog.methods.get((t, 'parse'), []) if (tr or '').startswith('WireFormat')]
    if len(cands) != 1:
        raise Unsupported("cannot resolve %s::parse" % t)
    f = cands[0]
    name_parse_fns = [g_ for tr, g_ in prog.methods.get(('Name', 'parse'), []) if (tr or '').startswith('WireFormat')]
    syms = X.sym_bytes('b', L)
    pos0 = sym('pos', 'usize')
    stats = {}
    covers = {'ok': 0, 'err': 0}

    def run(I):
        buf = X.byte_buffer(I, syms)
        # pre-condition established by RData::parse: cursor < len (RDLENGTH >= 1; OPT: cursor + 10 <= len is
        # checked by OPT::parse itself)
        I.ctx.assume(z3.ULT(pos0.z(), L))
        cell = Cell(pos0, 'pos')
        I.poscell = cell
        return I.call_function(f, [buf, Ref(cell)], {})

    def on_path(res):
        if res.kind == 'panic':
            m = res.ctx.model()
            bs = X.model_bytes(m, syms)
            p = m.eval(pos0.z(), model_completion=True).as_long()
            return {'status': 'violation', 'role': 'panic', 'detail': '%s::parse panics: %s' % (t, res.msg),
                    'cex': {'entry': 'rdata_parse', 'type': t, 'bytes': bs, 'pos': p, 'expect': {'outcome': 'panic'}}}
        if res.kind == 'bound' and res.interp.bound_fn in name_parse_fns:
            # Name::parse may legally re-read labels through a backwards pointer cycle until its 255-octet budget is used up;
            # its termination and panic-freedom for any iteration count are decided by C01.name.step / C01.name.run
            covers['name_cycles'] = covers.get('name_cycles', 0) + 1
            return None
        if res.kind == 'bound':
            # every iteration of these loops consumes at least one byte of the <= L-byte RDATA on a terminating run, and
            # Name::parse makes at most L label / pointer steps: N = 2L+4 iterations of one loop means the cursor stopped moving
            m = res.ctx.model()
            bs = X.model_bytes(m, syms)
            p = m.eval(pos0.z(), model_completion=True).as_long()
            return {'status': 'violation', 'role': 'hang', 'detail': '%s::parse: a loop runs %d times over %d bytes of RDATA (no progress): %s' % (t, N, L, res.msg),
                    'cex': {'entry': 'rdata_parse', 'type': t, 'bytes': bs, 'pos': p, 'expect': {'outcome': 'hang'}}}
        if res.kind != 'return':
            return None
        r = res.value
        covers['ok' if r.var == 'Ok' else 'err'] += 1
        if r.var == 'Ok':
            pos = res.interp.poscell.v
            if res.ctx.check(z3.Or(z3.UGT(pos.z(), L), z3.ULT(pos.z(), pos0.z()))):
                m = res.ctx.model()
                bs = X.model_bytes(m, syms)
                p = m.eval(pos0.z(), model_completion=True).as_long()
                return {'status': 'violation', 'role': 'cursor', 'detail': '%s::parse leaves the cursor outside the RDATA' % t,
                        'cex': {'entry': 'rdata_parse', 'type': t, 'bytes': bs, 'pos': p, 'expect': {'outcome': 'cursor'}}}
        return None

    v = X.explore(prog, run, on_path, loop_bound=N, stats=stats, timeout_ms=60000)
    out = {'paths': stats.get('paths', 0), 'queries': stats.get('queries', 0), 'solver_s': stats.get('solver_s', 0.0),
           'outcomes': stats.get('outcomes', {}), 'functions': stats.get('functions', set()), 'covers': covers,
           'covers_witnessed': sum(1 for k_, c in covers.items() if c and k_ != 'name_cycles'),
           'bound_ok': 'paths cut inside Name::parse (pointer cycles longer than the loop bound) are left to C01.name.step; a cut in any '
                       'other loop is reported as a hang candidate'}
    if v is not None:
        out.update(v)
    elif 'truncated' in stats:
        out['status'] = 'inconclusive'
        out['detail'] = 'truncated: ' + stats['truncated']
    elif not covers['err'] and not covers['ok']:
        out['status'] = 'inconclusive'
        out['detail'] = 'vacuous'
    return out
