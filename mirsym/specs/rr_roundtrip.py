"""Per-type record obligations on the real write_to / parse / len MIR (C02.rdata, C04.len, C10.enc/dec):
for a ResourceRecord with symbolic owner, TTL, cache-flush bit, class and a typed RDATA value whose every
integer and byte is symbolic (shape concrete):
   enc   : bytes written by ResourceRecord::write_to == RFC reference encoding (schema encoder), incl. TYPE code,
           CLASS|flush, TTL and RDLENGTH == number of RDATA bytes
   len   : ResourceRecord::len() == number of bytes written
   dec   : ResourceRecord::parse(reference bytes) == the original record, cursor exactly at the end
One task per record type; shapes enumerated inside the task."""
import z3
from ..values import *
from .. import explore as X
from . import valuegen as VG
from .valuegen import S

CRATE = 'simple-dns'
CLASSES = [('IN', 1), ('CS', 2), ('CH', 3), ('HS', 4), ('NONE', 254)]


def tasks(tier, params):
    only = params.get('only')
    ts = [t for t in S.TYPES if (not only or t.name in only)]
    return [(t.name, {'type': t.name}) for t in ts] + ([('NULL', {'type': 'NULL'})] if not only or 'NULL' in only else [])


def fn(prog, ty, method, trait='WireFormat'):
    c = [f for t, f in prog.methods.get((ty, method), []) if (t or '').startswith(trait)]
    if len(c) != 1:
        raise Unsupported("cannot resolve %s::%s (%d candidates)" % (ty, method, len(c)))
    return c[0]


def deep_eq(I, a, b):
    """structural equality of two crate values (z3 Bool); Cow/Vec/slices by content, maps entry-wise in order"""
    if isinstance(a, MapV) and isinstance(b, MapV):
        if len(a.entries) != len(b.entries):
            return z3.BoolVal(False)
        return z3.And([z3.BoolVal(True)] + [z3.And(deep_eq(I, ka, kb), deep_eq(I, va, vb))
                                             for (ka, va), (kb, vb) in zip(a.entries, b.entries)])
    if isinstance(a, Agg) and isinstance(b, Agg):
        if len(a.f) != len(b.f):
            return z3.BoolVal(False)
        return z3.And([z3.BoolVal(True)] + [deep_eq(I, x, y) for x, y in zip(a.f, b.f)])
    if isinstance(a, En) and isinstance(b, En) and a.ty != 'Cow':
        if a.var != b.var or len(a.f) != len(b.f):
            return z3.BoolVal(False)
        return z3.And([z3.BoolVal(True)] + [deep_eq(I, x, y) for x, y in zip(a.f, b.f)])
    if isinstance(a, (VecV, SliceRef)) or (isinstance(a, En) and a.ty == 'Cow'):
        xs, ys = I.seq_list(a), I.seq_list(b)
        if len(xs) != len(ys):
            return z3.BoolVal(False)
        return z3.And([z3.BoolVal(True)] + [deep_eq(I, x, y) for x, y in zip(xs, ys)])
    return I.value_eq(a, b)


def build_record(prog, I, tname, shape, owner_shape=(2, 1)):
    g = VG.Gen(prog, I.ctx)
    owner, owner_wire = g.name(owner_shape, 'own')
    owner_rust = g.last_rust
    if tname == 'NULL':
        code = g.fresh('u16', 'code')
        sup = [t.code for t in S.TYPES]
        I.ctx.assume(z3.And([code.z() != c for c in sup]))
        n = shape.get('rest', 0)
        bs, cw = g.cow(n, 'nd')
        rd_val = g.struct('NULL', length=mk('u16', n), data=cw)
        rdata = En('RData', 'NULL', (code, rd_val))
        rd_wire = bs
        rd_rust = lambda m: 'RData::NULL(%s, rdata::NULL::new(%s).unwrap())' % (VG.rs_int(m, code), VG.rs_bytes(m, bs))
        type_bytes = VG.be_bytes(code)
    else:
        t = S.BY_NAME[tname]
        rd_val, rd_wire, assume = g.rdata(t, shape)
        for a in assume:
            I.ctx.assume(a)
        inner = g.last_rust
        rdata = En('RData', tname, (rd_val,))
        rd_rust = lambda m: 'RData::%s(%s)' % (tname, inner(m))
        type_bytes = VG.be_bytes(mk('u16', t.code))
    ttl = g.fresh('u32', 'ttl')
    flush = g.fresh('bool', 'flush')
    cls_sel = g.fresh('u8', 'cls')
    I.ctx.assume(z3.ULT(cls_sel.z(), 5))
    k = I.ctx.decide([cls_sel.z() == i for i in range(5)])
    cname, ccode = CLASSES[k]
    if tname == 'OPT':
        # OPT pseudo-record: CLASS carries the UDP size; cache-flush and class are not represented, and the
        # TTL is the one Header::opt_rr builds: VERSION in bits 23..16 (validity predicate of an OPT record)
        I.ctx.assume(z3.Extract(23, 16, ttl.z()) == g.opt_fields[1].z())
        flush = FALSE
        cname, ccode = 'IN', 1
    rr = g.struct('ResourceRecord', name=owner, **{'class': En('CLASS', cname)}, ttl=ttl, rdata=rdata, cache_flush=flush)
    if tname == 'OPT':
        class_bytes = VG.be_bytes(g.opt_fields[0])
    else:
        cw16 = mk('u16', ccode)
        if flush.concrete:
            cv = cw16
        else:
            cv = sc_from(z3.If(flush.z(), z3.BitVecVal(ccode | 0x8000, 16), z3.BitVecVal(ccode, 16)), 'u16')
        class_bytes = VG.be_bytes(cv)
    expected = owner_wire + type_bytes + class_bytes + VG.be_bytes(ttl) + VG.be_bytes(mk('u16', len(rd_wire))) + rd_wire

    def rust(m):
        fl = 'true' if VG.ev(m, flush) else 'false'
        return ('ResourceRecord { name: %s, class: CLASS::%s, ttl: %s, rdata: %s, cache_flush: %s }'
                % (owner_rust(m), cname, VG.rs_int(m, ttl), rd_rust(m), fl))
    return rr, expected, rust, g


RUST_TEMPLATE = r'''
use crate::dns::name::Label;
use crate::dns::WireFormat;
use crate::rdata::{self, RData};
use crate::{CharacterString, Name, ResourceRecord, CLASS};
use std::borrow::Cow;

#[test]
fn verif_case() {
    let r = std::panic::catch_unwind(|| {
        let rr = %(rr)s;
        let expected: &[u8] = &[%(bytes)s];
        let mut fails: Vec<&str> = Vec::new();
        let mut out = Vec::new();
        if rr.write_to(&mut out).is_err() { fails.push("write_err"); }
        if out != expected { fails.push("bytes"); }
        if rr.len() != out.len() { fails.push("len"); }
        let mut pos = 0usize;
        match ResourceRecord::parse(expected, &mut pos) {
            Ok(p) => {
                if pos != expected.len() { fails.push("cursor"); }
                if !(p.name == rr.name && p.class == rr.class && p.ttl == rr.ttl
                     && p.cache_flush == rr.cache_flush && p.rdata == rr.rdata) { fails.push("fields"); }
                if p.rdata.type_code() != rr.rdata.type_code() { fails.push("type_code"); }
            }
            Err(_) => fails.push("parse_err"),
        }
        // the compressed writer of the same record (inside a packet): same fields after parsing, never longer
        {
            let mut pk = crate::Packet::new_reply(1);
            pk.answers.push(rr.clone());
            match (pk.build_bytes_vec_compressed(), pk.build_bytes_vec()) {
                (Ok(c), Ok(pl)) => {
                    if c.len() > pl.len() { fails.push("comp_len"); }
                    match crate::Packet::parse(&c) {
                        Ok(q) => {
                            if q.answers.len() != 1 { fails.push("comp_fields"); } else {
                                let p = &q.answers[0];
                                if !(p.name == rr.name && p.class == rr.class && p.ttl == rr.ttl
                                     && p.cache_flush == rr.cache_flush && p.rdata == rr.rdata) { fails.push("comp_fields"); }
                            }
                        }
                        Err(_) => fails.push("comp_parse"),
                    }
                }
                _ => fails.push("comp_build"),
            }
        }
        fails
    });
    match r {
        Ok(f) => println!("REPLAY-RESULT {{\"outcome\":\"ok\",\"fails\":[%(q)s]}}", f.iter().map(|s| format!("\"{}\"", s)).collect::<Vec<_>>().join(",")),
        Err(_) => println!("REPLAY-RESULT {{\"outcome\":\"panic\"}}"),
    }
}
'''


def rust_case(rust, expected, model):
    bs = ', '.join('0x%02x' % VG.ev(model, b) for b in expected)
    return RUST_TEMPLATE % {'rr': rust(model), 'bytes': bs, 'q': '{}'}


def run_task(prog, tid, params, tier):
    tname = params['type']
    if tname == 'NULL':
        shapes = [{'rest': 1}, {'rest': 4}]
    else:
        shapes = VG.shapes_for(S.BY_NAME[tname], tier)
    f_write = fn(prog, 'ResourceRecord', 'write_to')
    f_parse = fn(prog, 'ResourceRecord', 'parse')
    f_len = fn(prog, 'ResourceRecord', 'len')
    f_tc = [f for t, f in prog.methods[('RData', 'type_code')] if t is None][0]
    f_reply = [f for t, f in prog.methods[('Packet', 'new_reply')] if t is None][0]
    f_comp = [f for t, f in prog.methods[('Packet', 'build_bytes_vec_compressed')] if t is None][0]
    f_pparse = [f for t, f in prog.methods[('Packet', 'parse')] if t is None][0]
    tt = S.BY_NAME.get(tname)
    has_names = tt is not None and (tt.wrapper == 'name' or any(k == 'name' for _, k in tt.fields) or tname in ('NSEC', 'SVCB', 'HTTPS', 'IPSECKEY'))
    agg = {'paths': 0, 'queries': 0, 'solver_s': 0.0, 'outcomes': {}, 'functions': set(), 'covers_witnessed': 0,
           'shapes': len(shapes)}
    for si, shape in enumerate(shapes):
        stats = {}
        ok_paths = [0]

        def run(I):
            rr, expected, rust, g = build_record(prog, I, tname, shape)
            I.case = (rr, expected, rust)
            rr_ref = I.new_ref(rr, 'rr')
            out = Cell(VecV(()), 'out')
            w = I.call_function(f_write, [rr_ref, Ref(out)], {'T': 'Vec<u8>'})
            ln = I.call_function(f_len, [rr_ref], {})
            written = list(out.v.items)
            # parse the REFERENCE encoding (so a symmetric write/parse error cannot cancel out)
            buf = X.byte_buffer(I, expected, 'wire')
            pos = Cell(mk('usize', 0), 'pos')
            p = I.call_function(f_parse, [buf, Ref(pos)], {})
            I.comp = None
            if has_names and tname != 'OPT':
                # the type's write_compressed_to, through the packet-level compressed writer: parse(compressed) gives the same record
                pk = I.call_function(f_reply, [mk('u16', 1)], {})
                idx = prog.structs['Packet'].index('answers')
                pk = Agg(pk.ty, tuple(pk.f[:idx]) + (VecV([rr]),) + tuple(pk.f[idx + 1:]))
                cb = I.call_function(f_comp, [I.new_ref(pk, 'pk')], {})
                cq = I.call_function(f_pparse, [X.byte_buffer(I, list(cb.f[0].items), 'comp')], {}) if cb.var == 'Ok' else None
                I.comp = (cb, cq, idx)
            return (w, written, ln, p, pos.v)

        def on_path(res):
            I = res.interp
            rr, expected, rust = getattr(I, 'case', (None, None, None))

            def viol(what):
                m = res.ctx.model()
                return {'status': 'violation', 'role': what.split(':')[0],
                        'detail': '%s %s shape %r: %s' % (tname, 'record', shape, what),
                        'cex': {'entry': 'rust_test', 'code': rust_case(rust, expected, m),
                                'expect': {'any_failure': True}}}
            if res.kind == 'panic':
                if rr is None:
                    return {'status': 'inconclusive', 'detail': 'panic while building the value: ' + res.msg}
                return viol('panic: ' + res.msg)
            if res.kind != 'return':
                return None
            w, written, ln, p, pos = res.value
            if w.var != 'Ok':
                return viol('write: write_to returned Err for a valid record')
            if len(written) != len(expected):
                return viol('bytes: %d bytes written, RFC encoding has %d' % (len(written), len(expected)))
            diff = z3.Or([z3.BoolVal(False)] + [a.z() != b.z() for a, b in zip(written, expected)])
            if res.ctx.check(diff):
                return viol('bytes: written bytes differ from the RFC encoding')
            if res.ctx.check(ln.z() != len(written)):
                return viol('len: len() differs from the number of bytes written')
            if p.var != 'Ok':
                return viol('parse: the RFC encoding is rejected')
            if res.ctx.check(pos.z() != len(expected)):
                return viol('cursor: parsing does not end at the end of the record')
            # the type reported for the parsed record is the one its code denotes (C18; NULL / unknown codes included)
            tc = I.call_function(f_tc, [I.new_ref(p.f[0].f[3], 'rd')], {})
            if tname == 'NULL':
                code_sc = rr.f[3].f[0]
                want_null = res.ctx.check(code_sc.z() == 10) and not res.ctx.check(code_sc.z() != 10)
                bad = (tc.var != 'NULL') if want_null else (tc.var not in ('NULL', 'Unknown'))
                if tc.var == 'Unknown' and res.ctx.check(tc.f[0].z() != code_sc.z()):
                    bad = True
            else:
                bad = tc.var != tname
            if bad:
                return viol('type_code: parsed record reports type %s' % tc.var)
            eq = deep_eq(I, p.f[0], rr) if not shape.get('skip_eq') else z3.BoolVal(True)
            if res.ctx.check(z3.Not(eq)):
                return viol('fields: parsed record differs from the original')
            if I.comp is not None:
                cb, cq, idx = I.comp
                if cb.var != 'Ok':
                    return viol('comp_build: the compressed writer fails on a valid record')
                if cq.var != 'Ok':
                    return viol('comp_parse: the compressed encoding of the record is rejected')
                ans = list(cq.f[0].f[idx].items)
                if len(ans) != 1 or res.ctx.check(z3.Not(deep_eq(I, ans[0], rr))):
                    return viol('comp_fields: the record read back from its compressed encoding differs from the original')
                if len(cb.f[0].items) > 12 + len(expected):
                    return viol('comp_len: the compressed encoding is longer than the plain one')
            ok_paths[0] += 1
            return None

        v = X.explore(prog, run, on_path, loop_bound=600, stats=stats, timeout_ms=60000)
        agg['paths'] += stats.get('paths', 0)
        agg['queries'] += stats.get('queries', 0)
        agg['solver_s'] += stats.get('solver_s', 0.0)
        for k_, n_ in stats.get('outcomes', {}).items():
            agg['outcomes'][k_] = agg['outcomes'].get(k_, 0) + n_
        agg['functions'].update(stats.get('functions', ()))
        if v is not None:
            agg.update(v)
            return agg
        if 'truncated' in stats or stats.get('outcomes', {}).get('bound'):
            agg['status'] = 'inconclusive'
            agg['detail'] = 'shape %r: truncated/bound %r' % (shape, stats.get('outcomes'))
            return agg
        if ok_paths[0]:
            agg['covers_witnessed'] += 1
    if agg['covers_witnessed'] != len(shapes):
        agg['status'] = 'inconclusive'
        agg['detail'] = 'vacuous: only %d of %d shapes completed a round trip' % (agg['covers_witnessed'], len(shapes))
    return agg
