"""Symbolic values of the crate's types built from the RFC schema (spec/rdata_schema.py), and the matching
reference encoder (bytes as the RFC lays them out).  Shapes (label counts/lengths, string and blob lengths,
list sizes) are concrete per task; every byte and integer is symbolic."""
import os, sys
import z3
from ..values import *

sys.path.insert(0, os.path.dirname(os.path.dirname(os.path.dirname(os.path.abspath(__file__)))))
from spec import rdata_schema as S     # noqa: E402

W = {'u8': 'u8', 'u16': 'u16', 'u32': 'u32', 'i32': 'i32', 'u128': 'u128'}


def ev(model, sc):
    if sc.concrete:
        return sc.e
    r = model.eval(sc.z(), model_completion=True)
    if sc.ty == 'bool':
        return 1 if z3.is_true(r) else 0
    return r.as_long()


def rs_bytes(model, bs):
    return '&[' + ', '.join('0x%02x' % ev(model, b) for b in bs) + '][..]'


def rs_int(model, sc):
    v = ev(model, sc)
    if sc.ty in ('i32', 'i64'):
        v = signed_val(v, sc.ty)
    return '%d%s' % (v, sc.ty)


class Gen:
    def __init__(self, prog, ctx, prefix='v'):
        self.prog = prog
        self.ctx = ctx
        self.k = 0
        self.prefix = prefix
        self.syms = []          # all symbolic scalars created (for model printing)

    def fresh(self, ty, hint=''):
        self.k += 1
        s = sym('%s_%s%d' % (self.prefix, hint, self.k), ty)
        self.syms.append(s)
        return s

    def blob(self, n, hint='b'):
        """(list of n symbolic bytes, &[u8] over them)"""
        bs = [self.fresh('u8', hint) for _ in range(n)]
        cell = Cell(Agg('array', bs), hint)
        return bs, SliceRef(Ref(cell), mk('usize', 0), mk('usize', n))

    def cow(self, n, hint='c'):
        bs, sl = self.blob(n, hint)
        return bs, En('Cow', 'Borrowed', (sl,))

    def struct(self, sname_, **fields):
        order = self.prog.structs[sname_]
        return Agg(sname_, [fields[f] for f in order])

    # ---- names -------------------------------------------------------------------------
    def name(self, shape, hint='n', label_bytes=None):
        """shape: tuple of label lengths; returns (Name value, wire bytes list)"""
        labels = []
        wire = []
        for i, ln in enumerate(shape):
            if label_bytes is not None:
                bs = label_bytes[i]
                cell = Cell(Agg('array', bs), hint)
                cw = En('Cow', 'Borrowed', (SliceRef(Ref(cell), mk('usize', 0), mk('usize', ln)),))
            else:
                bs, cw = self.cow(ln, hint)
            labels.append(self.struct('Label', data=cw))
            wire.append(mk('u8', ln))
            wire += bs
        wire.append(mk('u8', 0))
        lbs = list(label_bytes) if label_bytes is not None else [list(l.f[0].f[0].base.cell.v.f) for l in labels]
        self.last_rust = lambda m: 'Name::new_with_labels(&[' + ', '.join(
            'Label::new_unchecked(%s)' % rs_bytes(m, bs) for bs in lbs) + '])'
        return self.struct('Name', labels=VecV(labels)), wire

    def cstr(self, n, hint='s'):
        bs, cw = self.cow(n, hint)
        self.last_rust = lambda m: 'CharacterString::new(%s).unwrap()' % rs_bytes(m, bs)
        return self.struct('CharacterString', data=cw), [mk('u8', n)] + bs

    # ---- typed RDATA ---------------------------------------------------------------------
    def rdata(self, t, shape):
        """t: schema T; shape: dict with 'names' (list of label-length tuples, consumed in order),
        'strs' (cstr lengths), 'rest' (opaque tail length), 'list' (special lists).
        returns (value of the type, reference RDATA bytes, validity assumptions list)"""
        names = list(shape.get('names', []))
        strs = list(shape.get('strs', []))
        rest = shape.get('rest', 0)
        assume = []
        wire = []
        if t.wrapper in ('name', 'cstr'):
            n, w = self.name(names.pop(0)) if t.wrapper == 'name' else self.cstr(strs.pop(0))
            inner = self.last_rust
            self.last_rust = lambda m: 'rdata::%s(%s)' % (t.rust, inner(m))
            return Agg(t.rust, (n,)), w, assume
        if t.wrapper == 'SVCB':
            v, w, a = self.rdata(S.BY_NAME['SVCB'], shape)
            inner = self.last_rust
            self.last_rust = lambda m: 'rdata::%s(%s)' % (t.rust, inner(m))
            return Agg(t.rust, (v,)), w, a
        if t.special:
            return getattr(self, 'sp_' + t.name.lower())(t, shape)
        vals = {}
        rust = {}
        for fname, kind in t.fields:
            if kind in W:
                v = self.fresh(kind, fname[:3])
                if t.name == 'LOC' and fname == 'version':
                    v = mk('u8', 0)              # documented validity: only version 0 can be written
                vals[fname] = v
                wire += be_bytes(v)
                rust[fname] = (lambda v: lambda m: rs_int(m, v))(v)
            elif kind.startswith('bytes'):
                n = int(kind[5:])
                bs = [self.fresh('u8', 'a') for _ in range(n)]
                vals[fname] = Agg('array', bs)
                wire += bs
                rust[fname] = (lambda bs: lambda m: '[' + ', '.join('0x%02x' % ev(m, b) for b in bs) + ']')(bs)
            elif kind == 'name':
                v, w = self.name(names.pop(0))
                vals[fname] = v
                wire += w
                rust[fname] = self.last_rust
            elif kind == 'cstr':
                v, w = self.cstr(strs.pop(0))
                vals[fname] = v
                wire += w
                rust[fname] = self.last_rust
            elif kind == 'rest':
                bs, cw = self.cow(rest, 'r')
                vals[fname] = cw
                wire += bs
                rust[fname] = (lambda bs: lambda m: 'Cow::Borrowed(%s)' % rs_bytes(m, bs))(bs)
        self.last_rust = lambda m: 'rdata::%s { %s }' % (t.rust, ', '.join('%s: %s' % (k, f(m)) for k, f in rust.items()))
        return self.struct(t.rust, **vals), wire, assume

    def sp_txt(self, t, shape):
        strs = shape.get('strs', [])
        items, wire, size = [], [], 0
        rl = []
        for n in strs:
            c, w = self.cstr(n)
            rl.append(self.last_rust)
            items.append(c)
            wire += w
            size += n + 1
        self.last_rust = lambda m: 'rdata::TXT::new()' + ''.join('.with_char_string(%s)' % f(m) for f in rl)
        if not strs:
            wire = [mk('u8', 0)]         # RFC 1035: at least one <character-string>; the library writes an empty one
        return self.struct('TXT', strings=VecV(items), size=mk('usize', size)), wire, []

    def sp_nsap(self, t, shape):
        f = {k: self.fresh(ty, k) for k, ty in (('afi', 'u8'), ('idi', 'u16'), ('dfi', 'u8'), ('aa', 'u32'),
                                                ('rsvd', 'u16'), ('rd', 'u16'), ('area', 'u16'), ('id', 'u64'),
                                                ('sel', 'u8'))}
        # validity: the wire carries a 24-bit AA and a 48-bit ID
        assume = [z3.ULT(f['aa'].z(), 1 << 24), z3.ULT(f['id'].z(), 1 << 48)]
        wire = be_bytes(f['afi']) + be_bytes(f['idi']) + be_bytes(f['dfi']) + be_bytes(f['aa'])[1:] + \
            be_bytes(f['rsvd']) + be_bytes(f['rd']) + be_bytes(f['area']) + be_bytes(f['id'])[2:] + be_bytes(f['sel'])
        self.last_rust = lambda m: 'rdata::NSAP { %s }' % ', '.join('%s: %s' % (k, rs_int(m, v)) for k, v in f.items())
        return self.struct('NSAP', **f), wire, assume

    def sp_opt(self, t, shape):
        codes, wire, rl = [], [], []
        for n in shape.get('list', []):
            code = self.fresh('u16', 'oc')
            bs, cw = self.cow(n, 'od')
            codes.append(self.struct('OPTCode', code=code, data=cw))
            rl.append((code, bs))
            wire += be_bytes(code) + be_bytes(mk('u16', n)) + bs
        udp, ver = self.fresh('u16', 'udp'), self.fresh('u8', 'ver')
        v = self.struct('OPT', opt_codes=VecV(codes), udp_packet_size=udp, version=ver)
        self.opt_fields = (udp, ver)
        self.last_rust = lambda m: 'rdata::OPT { opt_codes: vec![%s], udp_packet_size: %s, version: %s }' % (
            ', '.join('rdata::OPTCode { code: %s, data: Cow::Borrowed(%s) }' % (rs_int(m, c), rs_bytes(m, b)) for c, b in rl),
            rs_int(m, udp), rs_int(m, ver))
        return v, wire, []

    def sp_ipseckey(self, t, shape):
        gw = shape.get('gateway', 'None')
        prec, alg = self.fresh('u8', 'prec'), self.fresh('u8', 'alg')
        wire = [prec]
        if gw == 'None':
            g = En('Gateway', 'None')
            wire += [mk('u8', 0), alg]
            gr = lambda m: 'rdata::Gateway::None'
        elif gw == 'IPv4':
            ipb = [self.fresh('u8', 'ip') for _ in range(4)]
            g = En('Gateway', 'IPv4', (Agg('Ipv4Addr', (Agg('array', ipb),)),))
            wire += [mk('u8', 1), alg] + ipb
            gr = lambda m: 'rdata::Gateway::IPv4(std::net::Ipv4Addr::from([%s]))' % ', '.join(str(ev(m, b)) for b in ipb)
        elif gw == 'IPv6':
            ipb = [self.fresh('u8', 'ip') for _ in range(16)]
            g = En('Gateway', 'IPv6', (Agg('Ipv6Addr', (Agg('array', ipb),)),))
            wire += [mk('u8', 2), alg] + ipb
            gr = lambda m: 'rdata::Gateway::IPv6(std::net::Ipv6Addr::from([%s]))' % ', '.join(str(ev(m, b)) for b in ipb)
        else:
            n, w = self.name(shape['names'][0])
            nr = self.last_rust
            g = En('Gateway', 'Domain', (n,))
            wire += [mk('u8', 3), alg] + w
            gr = lambda m: 'rdata::Gateway::Domain(%s)' % nr(m)
        bs, cw = self.cow(shape.get('rest', 0), 'pk')
        wire += bs
        self.last_rust = lambda m: 'rdata::IPSECKEY { precedence: %s, algorithm: %s, gateway: %s, public_key: Cow::Borrowed(%s) }' % (
            rs_int(m, prec), rs_int(m, alg), gr(m), rs_bytes(m, bs))
        return self.struct('IPSECKEY', precedence=prec, algorithm=alg, gateway=g, public_key=cw), wire, []

    def sp_nsec(self, t, shape):
        n, wire = self.name(shape['names'][0])
        nr = self.last_rust
        maps, assume, rl = [], [], []
        prev = None
        for ln in shape.get('list', []):
            wb = self.fresh('u8', 'win')
            bs, cw = self.cow(ln, 'bm')
            rl.append((wb, bs))
            maps.append(self.struct('TypeBitMap', window_block=wb, bitmap=cw))
            wire += [wb, mk('u8', ln)] + bs
            if prev is not None:
                assume.append(z3.ULT(prev.z(), wb.z()))     # RFC 4034: windows in increasing order
            prev = wb
        self.last_rust = lambda m: 'rdata::NSEC { next_name: %s, type_bit_maps: vec![%s] }' % (nr(m), ', '.join(
            'rdata::TypeBitMap { window_block: %s, bitmap: Cow::Borrowed(%s) }' % (rs_int(m, w_), rs_bytes(m, b)) for w_, b in rl))
        return self.struct('NSEC', next_name=n, type_bit_maps=VecV(maps)), wire, assume

    def sp_svcb(self, t, shape):
        prio = self.fresh('u16', 'prio')
        n, w = self.name(shape['names'][0])
        nr = self.last_rust
        wire = be_bytes(prio) + w
        ents, assume, rl = [], [], []
        prev = None
        for ln in shape.get('list', []):
            key = self.fresh('u16', 'key')
            bs, cw = self.cow(ln, 'pv')
            rl.append((key, bs))
            ents.append((key, cw))
            wire += be_bytes(key) + be_bytes(mk('u16', ln)) + bs
            if prev is not None:
                assume.append(z3.ULT(prev.z(), key.z()))     # BTreeMap order == RFC 9460 ascending key order
            prev = key
        self.last_rust = lambda m: '{ let mut s = rdata::SVCB::new(%s, %s); %s s }' % (rs_int(m, prio), nr(m), ' '.join(
            's.set_param(%s, %s).unwrap();' % (rs_int(m, k), rs_bytes(m, b)) for k, b in rl))
        return self.struct('SVCB', priority=prio, target=n, params=MapV('BTreeMap', ents)), wire, assume


def be_bytes(v):
    n = width(v.ty) // 8
    out = []
    for k in range(n):
        hi = width(v.ty) - 8 * k - 1
        if v.concrete:
            out.append(mk('u8', (v.e >> (hi - 7)) & 0xFF))
        else:
            out.append(sc_from(z3.Extract(hi, hi - 7, v.e), 'u8'))
    return out


# --------------------------------------------------------------------------------- shapes per type
def pick(shapes, n):
    """n shapes spread evenly over the list (first and last included), so that every value of the slowest-varying
    dimension (e.g. the four IPSECKEY gateway kinds) is represented"""
    if len(shapes) <= n:
        return list(shapes)
    idx = sorted({round(i * (len(shapes) - 1) / (n - 1)) for i in range(n)})
    return [shapes[i] for i in idx]


def shapes_for(t, tier):
    """list of shape dicts for schema type t"""
    thorough = True      # the full shape set costs ~35 s sequentially: used in both tiers
    name_shapes = [(), (1,), (2, 1)] + ([(3, 2, 1), (63,)] if thorough else [])
    str_lens = [0, 2] + ([5, 255] if thorough else [])
    rest_lens = [0, 3] + ([1, 9] if thorough else [])
    base = S.BY_NAME.get(t.name, t)
    if t.wrapper == 'SVCB':
        base = S.BY_NAME['SVCB']
    nn = sum(1 for _, k in base.fields if k == 'name') + (1 if t.wrapper == 'name' else 0)
    ns = sum(1 for _, k in base.fields if k == 'cstr') + (1 if t.wrapper == 'cstr' else 0)
    has_rest = any(k == 'rest' for _, k in base.fields)
    out = []
    if base.special:
        nm = base.name
        if nm == 'TXT':
            for strs in ([0], [2], [1, 0, 3]) + (([255], [254, 1]) if thorough else ()):   # RFC 1035: one or more strings
                out.append({'strs': list(strs)})
            # an empty TXT is not a valid RFC value (written as one empty string): framing is checked, field equality is not
            out.append({'strs': [], 'skip_eq': True})
        elif nm == 'NSAP':
            out.append({})
        elif nm == 'OPT':
            for lst in ([], [0], [2, 1]) + (([5, 0, 3],) if thorough else ()):
                out.append({'list': list(lst)})
        elif nm == 'IPSECKEY':
            for gw in ('None', 'IPv4', 'IPv6', 'Domain'):
                for r in (0, 3):
                    out.append({'gateway': gw, 'names': [(2, 1)], 'rest': r})
        elif nm == 'NSEC':
            for lst in ([], [1], [2, 1]) + (([32, 1, 3],) if thorough else ()):
                for nsh in name_shapes[:2]:
                    out.append({'names': [nsh], 'list': list(lst)})
        elif nm == 'SVCB':
            for lst in ([], [0], [2, 1]) + (([4, 0, 3],) if thorough else ()):
                for nsh in name_shapes[:2]:
                    out.append({'names': [nsh], 'list': list(lst)})
        return out
    # generic: vary one dimension at a time around a small base point
    combos = []
    for nsh in name_shapes if nn else [None]:
        for sl in str_lens if ns else [None]:
            for rl in rest_lens if has_rest else [None]:
                combos.append((nsh, sl, rl))
    for nsh, sl, rl in combos:
        d = {}
        if nn:
            d['names'] = [nsh] + [name_shapes[1]] * (nn - 1) if nn > 1 else [nsh]
        if ns:
            d['strs'] = [sl] + [1] * (ns - 1)
        if has_rest:
            d['rest'] = rl
        out.append(d)
    return out
