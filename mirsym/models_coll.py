"""Models: Vec/String, iterators, maps, io::Write/Seek, Hash, fmt."""
import re
import z3
from .values import *
from .mirparse import INT_W, split_top
from .program import head, strip_lifetimes, split_generic
from .models import model, as_slice, deref_val, usize, cow_slice, clone_value, eq_dispatch, ult, ule, \
    eq_dispatch_deep, cow_into_owned, deref_seq


# ------------------------------------------------------------------ Vec / String
@model(r'^<Option<.*> as Default>::default$')
def m_option_default(I, fr, callee, m, args):
    return NONE


@model(r'^Vec::<.*>::new$|^String::new$|^<Vec<.*> as Default>::default$|^<String as Default>::default$')
def m_vec_new(I, fr, callee, m, args):
    return VecV((), 'String' in callee)


@model(r'^Vec::<(.*)>::with_capacity$|^String::with_capacity$')
def m_vec_with_capacity(I, fr, callee, m, args):
    I.events.append(('alloc', callee, args[0]))
    return VecV((), 'String' in callee)


@model(r'^Vec::<.*>::push$')
def m_vec_push(I, fr, callee, m, args):
    v = I.load_ref(args[0])
    I.store_ref(args[0], VecV(v.items + (args[1],), v.is_string))
    return UNIT


@model(r'^Vec::<.*>::pop$')
def m_vec_pop(I, fr, callee, m, args):
    v = I.load_ref(args[0])
    if not v.items:
        return NONE
    I.store_ref(args[0], VecV(v.items[:-1], v.is_string))
    return Some(v.items[-1])


@model(r'^Vec::<.*>::remove$')
def m_vec_remove(I, fr, callee, m, args):
    v = I.load_ref(args[0])
    k = I.ctx.concretize(args[1], limit=len(v.items) + 2)
    if k >= len(v.items):
        raise PathEnd('panic', 'Vec::remove index out of bounds')
    I.store_ref(args[0], VecV(v.items[:k] + v.items[k + 1:], v.is_string))
    return v.items[k]


@model(r'^Vec::<.*>::(clear|truncate)$|^String::clear$')
def m_vec_clear(I, fr, callee, m, args):
    v = I.load_ref(args[0])
    n = 0 if len(args) == 1 else I.ctx.concretize(args[1])
    I.store_ref(args[0], VecV(v.items[:n], v.is_string))
    return UNIT


@model(r'^Vec::<.*>::extend_from_slice$|^<Vec<.*> as Extend<.*>>::extend::<(.*)>$|^String::push_str$|^Vec::<.*>::append$')
def m_vec_extend(I, fr, callee, m, args):
    v = I.load_ref(args[0])
    src = args[1]
    if isinstance(src, IterV):
        xs = iter_collect(I, src)
        xs = [deref_val(I, x) if isinstance(x, Ref) and isinstance(I.load_ref(x), Sc) else x for x in xs]
    elif 'append' in callee:
        other = I.load_ref(src)
        xs = list(other.items)
        I.store_ref(src, VecV((), other.is_string))
    else:
        xs = I.seq_list(as_slice(I, src))
    I.store_ref(args[0], VecV(v.items + tuple(xs), v.is_string))
    return UNIT


@model(r'^String::push$')
def m_string_push(I, fr, callee, m, args):
    v = I.load_ref(args[0])
    I.store_ref(args[0], VecV(v.items + tuple(utf8_encode(I, args[1])), True))
    return UNIT


def utf8_encode(I, ch):
    """char -> list of u8 Sc; forks on the encoded length for symbolic chars"""
    if ch.concrete:
        return [mk('u8', b) for b in chr(ch.e).encode('utf-8')]
    e = ch.z()
    k = I.ctx.decide([z3.ULT(e, 0x80), z3.And(z3.UGE(e, 0x80), z3.ULT(e, 0x800)),
                      z3.And(z3.UGE(e, 0x800), z3.ULT(e, 0x10000)), z3.UGE(e, 0x10000)])

    def ex(hi, lo, pre):
        return sc_from(z3.Concat(z3.BitVecVal(pre[0], pre[1]), z3.Extract(hi, lo, e)), 'u8')
    if k == 0:
        return [sc_from(z3.Extract(7, 0, e), 'u8')]
    if k == 1:
        return [ex(10, 6, (0b110, 3)), ex(5, 0, (0b10, 2))]
    if k == 2:
        return [ex(15, 12, (0b1110, 4)), ex(11, 6, (0b10, 2)), ex(5, 0, (0b10, 2))]
    return [ex(20, 18, (0b11110, 5)), ex(17, 12, (0b10, 2)), ex(11, 6, (0b10, 2)), ex(5, 0, (0b10, 2))]


@model(r'^Vec::<.*>::(sort_by|sort|sort_unstable|sort_by_key|dedup|reverse)(?:::<.*>)?$|^(?:(?:core|std|alloc)::)?slice::<impl \[.*\]>::(sort_by|sort|reverse)(?:::<.*>)?$')
def m_vec_sort(I, fr, callee, m, args):
    op = m.group(1) or m.group(2)
    s = as_slice(I, args[0])
    v = I.load_ref(s.base)
    items = list(I.container_items(v))
    if op == 'reverse':
        items.reverse()
    elif op in ('sort_by',):
        # insertion sort driven by the real comparator closure (stable, as std)
        out = []
        for x in items:
            pos = len(out)
            while pos > 0:
                o = I.call_closure(args[1], [I.new_ref(x, 'sa'), I.new_ref(out[pos - 1], 'sb')])
                if o.var == 'Less':
                    pos -= 1
                else:
                    break
            out.insert(pos, x)
        items = out
    elif op in ('sort', 'sort_unstable'):
        return NotImplemented          # handled by m_sort_plain (natural ordering)
    else:
        raise Unsupported("Vec::" + op)
    I.store_ref(s.base, I.with_items(v, items))
    return UNIT


@model(r'^String::from_utf8$|^std::str::from_utf8$|^core::str::from_utf8$|^from_utf8$|^String::from_utf8_lossy$')
def m_from_utf8(I, fr, callee, m, args):
    """UTF-8 validity is decided exactly (fork on the validity predicate of the byte sequence)"""
    src = args[0]
    lossy = callee.endswith('lossy')
    if isinstance(src, VecV):
        xs = list(src.items)
    else:
        xs = I.seq_list(as_slice(I, src))
    valid = utf8_valid(xs)
    if I.ctx.branch(valid):
        if lossy:
            return En('Cow', 'Borrowed', (SliceRef(I.new_ref(VecV(xs, True), 'lossy'), usize(0), usize(len(xs)), True),))
        if isinstance(src, VecV):
            return Ok(VecV(xs, True))
        s = as_slice(I, src)
        return Ok(SliceRef(s.base, s.start, s.len, True))
    if lossy:
        # content of the lossy rendering is not inspected by the checked code
        return En('Cow', 'Owned', (VecV([mk('u8', 0xEF), mk('u8', 0xBF), mk('u8', 0xBD)], True),))
    if isinstance(src, VecV):
        return Err(Agg('FromUtf8Error', (src, Agg('Utf8Error', (VecV(xs),)))))
    return Err(Agg('Utf8Error', (VecV(xs),)))


def utf8_valid(xs):
    """z3 Bool: the byte list is well-formed UTF-8 (Unicode 15 table 3-7)"""
    n = len(xs)
    if all(x.concrete for x in xs):
        try:
            bytes(x.e for x in xs).decode('utf-8')
            return z3.BoolVal(True)
        except UnicodeDecodeError:
            return z3.BoolVal(False)
    zs = [x.z() for x in xs]

    def rng(b, lo, hi):
        return z3.And(z3.UGE(b, lo), z3.ULE(b, hi))
    # ok[i] = suffix starting at i is valid
    ok = [None] * (n + 1)
    ok[n] = z3.BoolVal(True)
    for i in range(n - 1, -1, -1):
        b0 = zs[i]
        alts = [z3.And(z3.ULE(b0, 0x7F), ok[i + 1])]
        if i + 1 < n:
            alts.append(z3.And(rng(b0, 0xC2, 0xDF), rng(zs[i + 1], 0x80, 0xBF), ok[i + 2]))
        if i + 2 < n:
            b1, b2 = zs[i + 1], zs[i + 2]
            t = rng(b2, 0x80, 0xBF)
            alts.append(z3.And(b0 == 0xE0, rng(b1, 0xA0, 0xBF), t, ok[i + 3]))
            alts.append(z3.And(z3.Or(rng(b0, 0xE1, 0xEC), rng(b0, 0xEE, 0xEF)), rng(b1, 0x80, 0xBF), t, ok[i + 3]))
            alts.append(z3.And(b0 == 0xED, rng(b1, 0x80, 0x9F), t, ok[i + 3]))
        if i + 3 < n:
            b1, b2, b3 = zs[i + 1], zs[i + 2], zs[i + 3]
            t = z3.And(rng(b2, 0x80, 0xBF), rng(b3, 0x80, 0xBF))
            alts.append(z3.And(b0 == 0xF0, rng(b1, 0x90, 0xBF), t, ok[i + 4]))
            alts.append(z3.And(rng(b0, 0xF1, 0xF3), rng(b1, 0x80, 0xBF), t, ok[i + 4]))
            alts.append(z3.And(b0 == 0xF4, rng(b1, 0x80, 0x8F), t, ok[i + 4]))
        ok[i] = z3.Or(alts)
    return ok[0]


@model(r'^String::into_bytes$|^<String as Into<Vec<u8>>>::into$|^<Vec<u8> as From<String>>::from$|^String::into_boxed_str$')
def m_string_into_bytes(I, fr, callee, m, args):
    return VecV(args[0].items, False)


@model(r'^<Vec<.*> as PartialEq>::(eq|ne)$')
def m_vec_eq(I, fr, callee, m, args):
    a, b = I.load_ref(args[0]), I.load_ref(args[1])
    e = I.seq_eq(a, b)
    return sc_from(e if m.group(1) == 'eq' else z3.Not(e), 'bool')


# ------------------------------------------------------------------ iterators
def mk_slice_iter(I, s, by_ref=True):
    s = as_slice(I, s)
    n = I.ctx.concretize(s.len, limit=300)
    st = s.start
    return IterV('slice', base=s.base, start=st, i=0, n=n)


@model(r'^(?:(?:core|std|alloc)::)?slice::<impl \[.*\]>::(iter|iter_mut)$|^<&(?:mut )?(?:Vec<.*>|\[.*\]) as IntoIterator>::into_iter$|^Vec::<.*>::(iter|iter_mut)$')
def m_slice_iter(I, fr, callee, m, args):
    return mk_slice_iter(I, args[0])


@model(r'^<(?:Vec<.*>|\[.*; \d+\]) as IntoIterator>::into_iter$')
def m_vec_into_iter(I, fr, callee, m, args):
    v = args[0]
    return IterV('list', items=tuple(I.container_items(v)), i=0)


@model(r'^<(.*) as IntoIterator>::into_iter$')
def m_into_iter_generic(I, fr, callee, m, args):
    v = args[0]
    if isinstance(v, IterV):
        return v
    if isinstance(v, (VecV,)) or (isinstance(v, Agg) and v.ty == 'array'):
        return IterV('list', items=tuple(I.container_items(v)), i=0)
    if isinstance(v, (SliceRef,)):
        return mk_slice_iter(I, v)
    if isinstance(v, Agg) and v.ty == 'Range':
        return IterV('range', cur=v.f[0], end=v.f[1])
    if isinstance(v, MapV):
        return map_into_iter(I, v)
    if isinstance(v, Ref):
        inner = I.load_ref(v)
        if isinstance(inner, (VecV, Agg)) and not (isinstance(inner, Agg) and inner.ty == 'Range'):
            return mk_slice_iter(I, v)
        if isinstance(inner, MapV):
            return map_iter_ref(I, v, inner)
    if isinstance(v, En) and v.ty == 'Option':
        return IterV('list', items=tuple(v.f[:1]) if v.var == 'Some' else (), i=0)
    if isinstance(v, Agg) and (v.ty, 'next') in I.prog.methods:
        return v            # impl<I: Iterator> IntoIterator for I  (a crate type implementing Iterator)
    return NotImplemented


_ADAPT = r'(enumerate|rev|zip|skip|take|map|filter|filter_map|flat_map|flatten|cloned|copied|chain|peekable|by_ref|step_by|take_while|skip_while|inspect|map_while)'


@model(r'^<(.*) as Iterator>::' + _ADAPT + r'(?:::<.*>)?$|^<(.*) as DoubleEndedIterator>::(rev)$')
def m_iter_adapt(I, fr, callee, m, args):
    op = m.group(2) or m.group(4)
    it = args[0]
    if not isinstance(it, IterV):
        ty = m.group(1) or m.group(3)
        if isinstance(it, Agg) and (it.ty, 'next') in I.prog.methods:
            it = IterV('custom', ty=ty, state=it)      # a crate type implementing Iterator
        else:
            return NotImplemented
    if op in ('enumerate',):
        return IterV('enumerate', inner=it, k=0)
    if op == 'rev':
        return IterV('rev', inner=it)
    if op == 'zip':
        other = args[1]
        if not isinstance(other, IterV):
            other = m_into_iter_generic(I, fr, callee, m, [other])
        return IterV('zip', a=it, b=other)
    if op in ('skip', 'take'):
        n = I.ctx.concretize(args[1], limit=300)
        return IterV(op, inner=it, n=n)
    if op in ('map', 'filter', 'filter_map', 'flat_map', 'take_while', 'skip_while', 'inspect', 'map_while'):
        return IterV(op, inner=it, f=args[1], cur=None, done=False)
    if op == 'flatten':
        return IterV('flat_map', inner=it, f=None, cur=None, done=False)
    if op in ('cloned', 'copied'):
        return IterV('cloned', inner=it)
    if op == 'chain':
        other = args[1]
        if not isinstance(other, IterV):
            other = m_into_iter_generic(I, fr, callee, m, [other])
        return IterV('chain', a=it, b=other)
    if op == 'by_ref':
        return args[0]
    raise Unsupported("iterator adapter " + op)


def iter_len_hint(I, it):
    k = it.kind
    if k == 'slice':
        return it.d['n'] - it.d['i']
    if k == 'list':
        return len(it.d['items']) - it.d['i']
    return None


def iter_next(I, it):
    """-> (item | None, new iterator)"""
    k = it.kind
    d = it.d
    if k == 'slice':
        if d['i'] >= d['n']:
            return None, it
        idx = I.binop('Add', d['start'], usize(d['i']))
        return Ref(d['base'].cell, d['base'].path + (('i', idx),)), it.repl(i=d['i'] + 1)
    if k == 'list':
        if d['i'] >= len(d['items']):
            return None, it
        return d['items'][d['i']], it.repl(i=d['i'] + 1)
    if k == 'range':
        if I.ctx.branch(I.binop('Lt', d['cur'], d['end'])):
            return d['cur'], it.repl(cur=I.binop('Add', d['cur'], mk(d['cur'].ty, 1)))
        return None, it
    if k == 'enumerate':
        x, inner = iter_next(I, d['inner'])
        if x is None:
            return None, it.repl(inner=inner)
        return Agg('tuple', (usize(d['k']), x)), it.repl(inner=inner, k=d['k'] + 1)
    if k == 'rev':
        x, inner = iter_next_back(I, d['inner'])
        return x, it.repl(inner=inner)
    if k == 'zip':
        x, a = iter_next(I, d['a'])
        if x is None:
            return None, it.repl(a=a)
        y, b = iter_next(I, d['b'])
        if y is None:
            return None, it.repl(a=a, b=b)
        return Agg('tuple', (x, y)), it.repl(a=a, b=b)
    if k == 'skip':
        inner = d['inner']
        n = d['n']
        while n > 0:
            x, inner = iter_next(I, inner)
            n -= 1
            if x is None:
                break
        x, inner = iter_next(I, inner)
        return x, IterV('skip', inner=inner, n=0)
    if k == 'take':
        if d['n'] <= 0:
            return None, it
        x, inner = iter_next(I, d['inner'])
        return x, it.repl(inner=inner, n=d['n'] - 1)
    if k == 'map':
        x, inner = iter_next(I, d['inner'])
        if x is None:
            return None, it.repl(inner=inner)
        return I.call_closure(d['f'], [x]), it.repl(inner=inner)
    if k == 'inspect':
        x, inner = iter_next(I, d['inner'])
        return x, it.repl(inner=inner)
    if k == 'cloned':
        x, inner = iter_next(I, d['inner'])
        if x is None:
            return None, it.repl(inner=inner)
        return clone_value(I, deref_val(I, x)), it.repl(inner=inner)
    if k == 'filter':
        inner = d['inner']
        while True:
            x, inner = iter_next(I, inner)
            if x is None:
                return None, it.repl(inner=inner)
            keep = I.call_closure(d['f'], [I.new_ref(x, 'flt')])
            if I.ctx.branch(keep):
                return x, it.repl(inner=inner)
    if k == 'filter_map':
        inner = d['inner']
        while True:
            x, inner = iter_next(I, inner)
            if x is None:
                return None, it.repl(inner=inner)
            r = I.call_closure(d['f'], [x])
            if r.var == 'Some':
                return r.f[0], it.repl(inner=inner)
    if k == 'map_while' or k == 'take_while':
        if d['done']:
            return None, it
        x, inner = iter_next(I, d['inner'])
        if x is None:
            return None, it.repl(inner=inner)
        if k == 'map_while':
            r = I.call_closure(d['f'], [x])
            if r.var == 'Some':
                return r.f[0], it.repl(inner=inner)
            return None, it.repl(inner=inner, done=True)
        keep = I.call_closure(d['f'], [I.new_ref(x, 'tw')])
        if I.ctx.branch(keep):
            return x, it.repl(inner=inner)
        return None, it.repl(inner=inner, done=True)
    if k == 'flat_map':
        inner, cur = d['inner'], d['cur']
        while True:
            if cur is not None:
                y, cur = iter_next(I, cur)
                if y is not None:
                    return y, it.repl(inner=inner, cur=cur)
                cur = None
            x, inner = iter_next(I, inner)
            if x is None:
                return None, it.repl(inner=inner, cur=None)
            sub = I.call_closure(d['f'], [x]) if d['f'] is not None else x
            cur = to_iter(I, sub)
    if k == 'chain':
        x, a = iter_next(I, d['a'])
        if x is not None:
            return x, it.repl(a=a)
        y, b = iter_next(I, d['b'])
        return y, it.repl(a=a, b=b)
    if k == 'custom':
        # a crate type implementing Iterator: call its MIR `next` on a cell
        ref = I.new_ref(d['state'], 'iter')
        r = I.do_call(None, '<%s as Iterator>::next' % d['ty'], [ref])
        st = I.load_ref(ref)
        if r.var == 'None':
            return None, it.repl(state=st)
        return r.f[0], it.repl(state=st)
    if k == 'chars':
        xs, i = d['bytes'], d['i']
        if i >= len(xs):
            return None, it
        ch, n = utf8_decode_at(I, xs, i)
        return ch, it.repl(i=i + n)
    if k == 'splitn' or k == 'split':
        return split_next(I, it)
    if k == 'chunks':
        xs, i, sz = d['s'], d['i'], d['size']
        n = d['n']
        if i >= n:
            return None, it
        ln = min(sz, n - i)
        s = d['s']
        return SliceRef(s.base, I.binop('Add', s.start, usize(i)), usize(ln), s.is_str), it.repl(i=i + ln)
    raise Unsupported("iter_next " + k)


def iter_next_back(I, it):
    k, d = it.kind, it.d
    if k == 'slice':
        if d['i'] >= d['n']:
            return None, it
        idx = I.binop('Add', d['start'], usize(d['n'] - 1))
        return Ref(d['base'].cell, d['base'].path + (('i', idx),)), it.repl(n=d['n'] - 1)
    if k == 'list':
        items = d['items']
        if d['i'] >= len(items):
            return None, it
        return items[-1], it.repl(items=items[:-1])
    if k == 'rev':
        x, inner = iter_next(I, d['inner'])
        return x, it.repl(inner=inner)
    if k == 'map':
        x, inner = iter_next_back(I, d['inner'])
        if x is None:
            return None, it.repl(inner=inner)
        return I.call_closure(d['f'], [x]), it.repl(inner=inner)
    if k == 'cloned':
        x, inner = iter_next_back(I, d['inner'])
        if x is None:
            return None, it.repl(inner=inner)
        return deref_val(I, x), it.repl(inner=inner)
    if k == 'enumerate':
        n = iter_len_hint(I, d['inner'])
        x, inner = iter_next_back(I, d['inner'])
        if x is None:
            return None, it.repl(inner=inner)
        return Agg('tuple', (usize(d['k'] + n - 1), x)), it.repl(inner=inner)
    raise Unsupported("iter_next_back " + k)


def to_iter(I, v):
    if isinstance(v, IterV):
        return v
    r = m_into_iter_generic(I, None, '', None, [v])
    if r is NotImplemented:
        raise Unsupported("to_iter %r" % (v,))
    return r


def iter_collect(I, it):
    out = []
    while True:
        x, it = iter_next(I, it)
        if x is None:
            return out
        out.append(x)
        if len(out) > 5000:
            raise PathEnd('bound', 'iterator longer than 5000')


@model(r'^<(.*) as Iterator>::next$|^<(.*) as DoubleEndedIterator>::next_back$')
def m_iter_next(I, fr, callee, m, args):
    it = I.load_ref(args[0])
    if not isinstance(it, IterV):
        return NotImplemented
    if 'next_back' in callee:
        x, it2 = iter_next_back(I, it)
    else:
        x, it2 = iter_next(I, it)
    I.store_ref(args[0], it2)
    return NONE if x is None else Some(x)


@model(r'^<(.*) as Iterator>::(rposition|rfind)(?:::<(.*)>)?$|^<(.*) as DoubleEndedIterator>::(rposition|rfind)(?:::<(.*)>)?$')
def m_iter_rposition(I, fr, callee, m, args):
    """search from the back; the index reported by rposition counts from the front"""
    op = m.group(2) or m.group(5)
    it = args[0]
    if isinstance(it, Ref):
        it = I.load_ref(it)
    if not isinstance(it, IterV):
        return NotImplemented
    xs = iter_collect(I, it)
    for k in range(len(xs) - 1, -1, -1):
        r = I.call_closure(args[1], [xs[k]] if op == 'rposition' else [I.new_ref(xs[k], 'rfind')])
        if I.ctx.branch(r):
            return Some(usize(k)) if op == 'rposition' else Some(xs[k])
    return NONE


@model(r'^<(.*) as Iterator>::(all|any|position|count|last|sum|fold|for_each|collect|min_by|max_by|find|find_map|nth|min|max|try_fold|partition|unzip|eq|min_by_key|max_by_key)(?:::<(.*)>)?$')
def m_iter_consume(I, fr, callee, m, args):
    op = m.group(2)
    it = args[0]
    by_ref = False
    if isinstance(it, Ref):
        inner = I.load_ref(it)
        if isinstance(inner, IterV):
            by_ref = True
            ref = it
            it = inner
    if not isinstance(it, IterV):
        # a crate type implementing Iterator (e.g. LabelsIter) consumed by a std adapter
        ty = m.group(1)
        it = IterV('custom', ty=ty, state=it)
    if op in ('all', 'any'):
        while True:
            x, it = iter_next(I, it)
            if x is None:
                res = TRUE if op == 'all' else FALSE
                break
            r = I.call_closure(args[1], [x])
            if I.ctx.branch(r) != (op == 'all'):
                res = FALSE if op == 'all' else TRUE
                break
        if by_ref:
            I.store_ref(ref, it)
        return res
    if op in ('position', 'find', 'find_map'):
        k = 0
        while True:
            x, it = iter_next(I, it)
            if x is None:
                res = NONE
                break
            if op == 'find_map':
                r = I.call_closure(args[1], [x])
                if r.var == 'Some':
                    res = r
                    break
            else:
                r = I.call_closure(args[1], [x] if op == 'position' else [I.new_ref(x, 'find')])
                if I.ctx.branch(r):
                    res = Some(usize(k)) if op == 'position' else Some(x)
                    break
            k += 1
        if by_ref:
            I.store_ref(ref, it)
        return res
    xs = iter_collect(I, it)
    if op == 'count':
        return usize(len(xs))
    if op == 'last':
        return Some(xs[-1]) if xs else NONE
    if op == 'nth':
        n = I.ctx.concretize(args[1])
        return Some(xs[n]) if n < len(xs) else NONE
    if op == 'sum':
        ty = (m.group(3) or 'usize').strip()
        acc = mk(ty, 0)
        for x in xs:
            x = deref_val(I, x)
            if I.ctx.branch(I.overflow('Add', acc, x)):
                raise PathEnd('panic', 'attempt to add with overflow (Iterator::sum)')
            acc = I.binop('Add', acc, x)
        return acc
    if op == 'fold':
        acc = args[1]
        for x in xs:
            acc = I.call_closure(args[2], [acc, x])
        return acc
    if op == 'for_each':
        for x in xs:
            I.call_closure(args[1], [x])
        return UNIT
    if op == 'collect':
        return collect_into(I, fr, m.group(3) or '', xs)
    if op in ('min_by', 'max_by'):
        if not xs:
            return NONE
        best = xs[0]
        for x in xs[1:]:
            o = I.call_closure(args[1], [I.new_ref(best, 'mb'), I.new_ref(x, 'mx')])
            if op == 'min_by':
                if o.var == 'Greater':
                    best = x
            else:
                if o.var != 'Greater':
                    best = x
        return Some(best)
    if op in ('min', 'max'):
        if not xs:
            return NONE
        best = deref_val(I, xs[0])
        bref = xs[0]
        for x in xs[1:]:
            xv = deref_val(I, x)
            lt = I.binop('Lt', xv, best)
            take = I.ctx.branch(lt) if op == 'min' else not I.ctx.branch(lt)
            if take:
                best, bref = xv, x
        return Some(bref)
    if op == 'eq':
        other = args[1]
        ys = iter_collect(I, to_iter(I, other))
        if len(xs) != len(ys):
            return FALSE
        from .models import eq_dispatch_deep
        e = z3.And([z3.BoolVal(True)] + [eq_dispatch_deep(I, deref_val(I, x), deref_val(I, y)) for x, y in zip(xs, ys)])
        return sc_from(e, 'bool')
    raise Unsupported("Iterator::" + op)


def collect_into(I, fr, target, xs):
    t = strip_lifetimes(target)
    h = head(t)
    if h in ('Vec', 'Box'):
        return VecV(xs)
    if h == 'String':
        out = []
        for x in xs:
            if isinstance(x, Sc) and x.ty == 'char':
                from .models_coll import utf8_encode
                out += utf8_encode(I, x)
            else:
                out += I.seq_list(as_slice(I, x))
        return VecV(out, True)
    if h == 'Result':
        _, targs = split_generic(t)
        vals = []
        for x in xs:
            if x.var == 'Err':
                return x
            vals.append(x.f[0])
        return Ok(collect_into(I, fr, targs[0], vals))
    if h == 'Option':
        _, targs = split_generic(t)
        vals = []
        for x in xs:
            if x.var == 'None':
                return NONE
            vals.append(x.f[0])
        return Some(collect_into(I, fr, targs[0], vals))
    if h in ('HashMap', 'BTreeMap', 'HashSet', 'BTreeSet'):
        mv = MapV(h)
        for x in xs:
            if h.endswith('Set'):
                mv, _ = map_insert(I, mv, x, UNIT)
            else:
                mv, _ = map_insert(I, mv, x.f[0], x.f[1])
        return mv
    if h == 'Cow':
        return En('Cow', 'Owned', (VecV(xs),))
    raise Unsupported("collect into " + target)


@model(r'^(?:(?:core|std|alloc)::)?slice::<impl \[.*\]>::(chunks|splitn|split)(?:::<.*>)?$|^(?:(?:core|std|alloc)::)?str::<impl str>::(chars|split|splitn|bytes)(?:::<.*>)?$')
def m_slice_iters(I, fr, callee, m, args):
    op = m.group(1) or m.group(2)
    s = as_slice(I, args[0])
    if op == 'chunks':
        n = I.ctx.concretize(s.len, limit=3000)
        size = I.ctx.concretize(args[1])
        if size == 0:
            raise PathEnd('panic', 'chunk size must be non-zero')
        return IterV('chunks', s=s, i=0, n=n, size=size)
    if op == 'chars':
        return IterV('chars', bytes=tuple(I.seq_list(s)), i=0)
    if op == 'bytes':
        return IterV('list', items=tuple(I.seq_list(s)), i=0)
    if op in ('split', 'splitn'):
        is_str = m.group(2) is not None
        if op == 'splitn':
            cnt = I.ctx.concretize(args[1])
            pred = args[2]
        else:
            cnt = None
            pred = args[1]
        n = I.ctx.concretize(s.len, limit=3000)
        return IterV('split', s=s, i=0, n=n, left=cnt, pred=pred, is_str=is_str, done=False)
    raise Unsupported(op)


def utf8_decode_at(I, xs, i):
    """decode one char from a (valid) UTF-8 byte list at i -> (char Sc, byte length)"""
    b0 = xs[i]
    if b0.concrete:
        k = 1 if b0.e < 0x80 else 2 if b0.e < 0xE0 else 3 if b0.e < 0xF0 else 4
    else:
        e = b0.z()
        k = 1 + I.ctx.decide([z3.ULT(e, 0x80), z3.And(z3.UGE(e, 0x80), z3.ULT(e, 0xE0)),
                              z3.And(z3.UGE(e, 0xE0), z3.ULT(e, 0xF0)), z3.UGE(e, 0xF0)])
    if i + k > len(xs):
        raise PathEnd('infeasible', 'truncated utf-8 (validity is a precondition of str)')
    zs = [x.z() for x in xs[i:i + k]]

    def low(b, n):
        return z3.Extract(n - 1, 0, b)
    if k == 1:
        e = z3.ZeroExt(24, zs[0])
    elif k == 2:
        e = z3.ZeroExt(21, z3.Concat(low(zs[0], 5), low(zs[1], 6)))
    elif k == 3:
        e = z3.ZeroExt(16, z3.Concat(low(zs[0], 4), low(zs[1], 6), low(zs[2], 6)))
    else:
        e = z3.ZeroExt(11, z3.Concat(low(zs[0], 3), low(zs[1], 6), low(zs[2], 6), low(zs[3], 6)))
    return sc_from(e, 'char'), k


def split_next(I, it):
    d = it.d
    if d['done']:
        return None, it
    s, i, n = d['s'], d['i'], d['n']
    if d['left'] is not None and d['left'] <= 1:
        return SliceRef(s.base, I.binop('Add', s.start, usize(i)), usize(n - i), s.is_str), it.repl(done=True)
    items = I.seq_items(s)[0]
    j = i
    while j < n:
        elem_idx = I.binop('Add', s.start, usize(j))
        if d['is_str']:
            xs = [I.select(items, I.binop('Add', s.start, usize(q))) for q in range(j, min(n, j + 4))]
            ch, k = utf8_decode_at(I, xs, 0)
            hit = I.call_closure(d['pred'], [ch]) if not isinstance(d['pred'], Sc) else I.binop('Eq', ch, d['pred'])
        else:
            k = 1
            ref = Ref(s.base.cell, s.base.path + (('i', elem_idx),))
            hit = I.call_closure(d['pred'], [ref])
        if I.ctx.branch(hit):
            piece = SliceRef(s.base, I.binop('Add', s.start, usize(i)), usize(j - i), s.is_str)
            left = None if d['left'] is None else d['left'] - 1
            return piece, it.repl(i=j + k, left=left)
        j += k
    return SliceRef(s.base, I.binop('Add', s.start, usize(i)), usize(n - i), s.is_str), it.repl(done=True)


# ------------------------------------------------------------------ maps
def map_find(I, mv, key):
    """index of the entry whose key equals `key` (forks on key equality), or None"""
    for i, (k, v) in enumerate(mv.entries):
        e = eq_dispatch_deep(I, k, key)
        if I.ctx.branch(e):
            return i
    return None


def map_insert(I, mv, key, val):
    i = map_find(I, mv, key)
    if i is not None:
        old = mv.entries[i][1]
        ents = mv.entries[:i] + ((mv.entries[i][0], val),) + mv.entries[i + 1:]
        return MapV(mv.kind, ents), Some(old)
    ents = mv.entries + ((key, val),)
    if mv.kind.startswith('BTree'):
        ents = tuple(btree_sorted(I, ents))
    return MapV(mv.kind, ents), NONE


def btree_sorted(I, ents):
    out = []
    for k, v in ents:
        pos = len(out)
        while pos > 0:
            lt = I.binop('Lt', k, out[pos - 1][0]) if isinstance(k, Sc) else None
            if lt is None:
                raise Unsupported("BTreeMap with non-scalar keys")
            if I.ctx.branch(lt):
                pos -= 1
            else:
                break
        out.insert(pos, (k, v))
    return out


@model(r'^(HashMap|BTreeMap|HashSet|BTreeSet)::<.*>::(new|with_capacity|default)$|^<(HashMap|BTreeMap|HashSet|BTreeSet)<.*> as Default>::default$')
def m_map_new(I, fr, callee, m, args):
    return MapV(m.group(1) or m.group(3))


@model(r'^(HashMap|BTreeMap)::<.*>::(insert|get|get_mut|remove|contains_key|entry|len|is_empty|iter|values|keys|clear|iter_mut|values_mut|into_values|into_keys|extend)(?:::<.*>)?$|^(HashSet|BTreeSet)::<.*>::(insert|contains|remove|len|is_empty|iter|clear|extend)(?:::<.*>)?$')
def m_map_ops(I, fr, callee, m, args):
    op = m.group(2) or m.group(4)
    is_set = m.group(3) is not None
    ref = args[0]
    mv = I.load_ref(ref) if isinstance(ref, Ref) else ref
    if op == 'insert':
        if is_set:
            nm, old = map_insert(I, mv, args[1], UNIT)
            if old.var == 'Some':
                return FALSE          # HashSet::insert keeps the old element
            I.store_ref(ref, nm)
            return TRUE
        nm, old = map_insert(I, mv, args[1], args[2])
        I.store_ref(ref, nm)
        return old
    if op in ('get', 'get_mut', 'contains_key', 'contains'):
        key = deref_key(I, args[1])
        i = map_find(I, mv, key)
        if op in ('contains_key', 'contains'):
            return TRUE if i is not None else FALSE
        if i is None:
            return NONE
        return Some(Ref(ref.cell, ref.path + (('ent', i),)))
    if op == 'remove':
        key = deref_key(I, args[1])
        i = map_find(I, mv, key)
        if i is None:
            return FALSE if is_set else NONE
        I.store_ref(ref, MapV(mv.kind, mv.entries[:i] + mv.entries[i + 1:]))
        return TRUE if is_set else Some(mv.entries[i][1])
    if op == 'len':
        return usize(len(mv.entries))
    if op == 'is_empty':
        return TRUE if not mv.entries else FALSE
    if op == 'clear':
        I.store_ref(ref, MapV(mv.kind))
        return UNIT
    if op == 'entry':
        i = map_find(I, mv, args[1])
        if i is not None:
            return En('Entry', 'Occupied', (Agg('OccupiedEntry', (ref, usize(i), args[1])),))
        return En('Entry', 'Vacant', (Agg('VacantEntry', (ref, args[1])),))
    if op in ('iter', 'iter_mut'):
        return map_iter_ref(I, ref, mv)
    if op in ('values', 'values_mut'):
        order = map_order(I, mv)
        return IterV('list', items=tuple(Ref(ref.cell, ref.path + (('ent', i),)) for i in order), i=0)
    if op == 'keys':
        order = map_order(I, mv)
        return IterV('list', items=tuple(Ref(ref.cell, ref.path + (('entk', i),)) for i in order), i=0)
    if op == 'into_values':
        order = map_order(I, mv)
        return IterV('list', items=tuple(mv.entries[i][1] for i in order), i=0)
    if op == 'extend':
        xs = iter_collect(I, to_iter(I, args[1]))
        for x in xs:
            if is_set:
                mv, _ = map_insert(I, mv, x, UNIT)
            else:
                mv, _ = map_insert(I, mv, x.f[0], x.f[1])
        I.store_ref(ref, mv)
        return UNIT
    raise Unsupported("map op " + op)


def deref_key(I, k):
    # lookups take &Q; keys are stored by value
    if isinstance(k, Ref):
        inner = I.load_ref(k)
        if isinstance(inner, (Sc, SliceRef, Ref, Agg, En, VecV)):
            return inner if not isinstance(inner, VecV) else inner
    return k


def map_order(I, mv):
    """iteration order: BTree = sorted (kept sorted); Hash* = an arbitrary permutation chosen by the
    solver-independent scheduler: every permutation is explored as a separate path"""
    n = len(mv.entries)
    if mv.kind.startswith('BTree') or n <= 1:
        return list(range(n))
    if getattr(I, 'hash_order_fixed', False):
        return list(range(n))
    remaining = list(range(n))
    order = []
    while len(remaining) > 1:
        k = choose(I, len(remaining))
        order.append(remaining.pop(k))
    order += remaining
    return order


def choose(I, n):
    """nondeterministic choice among n alternatives (all explored)"""
    v = z3.BitVec(I.ctx.fresh_name('choice'), 8)
    I.ctx.add(z3.ULT(v, n))
    return I.ctx.decide([v == i for i in range(n)])


def map_iter_ref(I, ref, mv):
    order = map_order(I, mv)
    if mv.kind.endswith('Set'):
        return IterV('list', items=tuple(Ref(ref.cell, ref.path + (('entk', i),)) for i in order), i=0)
    return IterV('list', items=tuple(Agg('tuple', (Ref(ref.cell, ref.path + (('entk', i),)),
                                                    Ref(ref.cell, ref.path + (('ent', i),)))) for i in order), i=0)


def map_into_iter(I, mv):
    order = map_order(I, mv)
    if mv.kind.endswith('Set'):
        return IterV('list', items=tuple(mv.entries[i][0] for i in order), i=0)
    return IterV('list', items=tuple(Agg('tuple', mv.entries[i]) for i in order), i=0)


@model(r'^std::collections::hash_map::(OccupiedEntry|VacantEntry)::<.*>::(get|get_mut|insert|into_mut|key|remove)$|^std::collections::hash_map::Entry::<.*>::(or_insert|or_insert_with|or_default|and_modify|key)(?:::<.*>)?$|^std::collections::btree_map::(OccupiedEntry|VacantEntry)::<.*>::(get|get_mut|insert|into_mut)$')
def m_entry(I, fr, callee, m, args):
    op = m.group(2) or m.group(3) or m.group(5)
    e = args[0]
    if isinstance(e, Ref):
        e = I.load_ref(e)
    if isinstance(e, En):           # Entry
        inner = e.f[0]
        mref = inner.f[0]
        if op in ('or_insert', 'or_insert_with', 'or_default'):
            if e.var == 'Occupied':
                i = inner.f[1].e
                return Ref(mref.cell, mref.path + (('ent', i),))
            if op == 'or_insert':
                val = args[1]
            elif op == 'or_insert_with':
                val = I.call_closure(args[1], [])
            else:
                raise Unsupported("or_default")
            mv = I.load_ref(mref)
            I.store_ref(mref, MapV(mv.kind, mv.entries + ((inner.f[1], val),)))
            return Ref(mref.cell, mref.path + (('ent', len(mv.entries)),))
        raise Unsupported("Entry::" + op)
    mref = e.f[0]
    mv = I.load_ref(mref)
    if e.ty == 'OccupiedEntry':
        i = e.f[1].e
        if op in ('get', 'get_mut', 'into_mut'):
            return Ref(mref.cell, mref.path + (('ent', i),))
        if op == 'insert':
            old = mv.entries[i][1]
            I.store_ref(mref, MapV(mv.kind, mv.entries[:i] + ((mv.entries[i][0], args[1]),) + mv.entries[i + 1:]))
            return old
        if op == 'remove':
            I.store_ref(mref, MapV(mv.kind, mv.entries[:i] + mv.entries[i + 1:]))
            return mv.entries[i][1]
    else:
        if op == 'insert':
            I.store_ref(mref, MapV(mv.kind, mv.entries + ((e.f[1], args[1]),)))
            return Ref(mref.cell, mref.path + (('ent', len(mv.entries)),))
    raise Unsupported("entry op %s on %s" % (op, e.ty))


# ------------------------------------------------------------------ more slice / Vec API (kept small and exact)
from .models import subslice, check_bounds_or_panic, band   # noqa: E402


@model(r'^(?:(?:core|std|alloc)::)?slice::<impl \[.*\]>::(split_at|split_at_mut|split_first|split_last|starts_with|ends_with|contains|swap|fill)(?:::<.*>)?$')
def m_slice_more(I, fr, callee, m, args):
    op = m.group(1)
    s = as_slice(I, args[0])
    if op in ('split_at', 'split_at_mut'):
        mid = args[1]
        check_bounds_or_panic(I, ule(mid, s.len), 'split_at: mid > len')
        return Agg('tuple', (subslice(I, s, usize(0), mid), subslice(I, s, mid, s.len)))
    if op in ('split_first', 'split_last'):
        if I.ctx.branch(I.binop('Eq', s.len, usize(0))):
            return NONE
        n1 = I.binop('Sub', s.len, usize(1))
        if op == 'split_first':
            first = Ref(s.base.cell, s.base.path + (('i', s.start),))
            return Some(Agg('tuple', (first, subslice(I, s, usize(1), s.len))))
        last = Ref(s.base.cell, s.base.path + (('i', I.binop('Add', s.start, n1)),))
        return Some(Agg('tuple', (last, subslice(I, s, usize(0), n1))))
    if op in ('starts_with', 'ends_with'):
        o = as_slice(I, args[1])
        if not I.ctx.branch(ule(o.len, s.len)):
            return FALSE
        part = subslice(I, s, usize(0), o.len) if op == 'starts_with' else subslice(I, s, I.binop('Sub', s.len, o.len), s.len)
        return sc_from(I.seq_eq(part, o), 'bool')
    if op == 'contains':
        xs = I.seq_list(s)
        needle = deref_val(I, args[1])
        return sc_from(z3.Or([z3.BoolVal(False)] + [eq_dispatch(I, x, needle) for x in xs]), 'bool')
    if op == 'swap':
        c = I.load_ref(s.base)
        items = list(I.container_items(c))
        st = I.ctx.concretize(s.start)
        a, b = I.ctx.concretize(args[1]), I.ctx.concretize(args[2])
        n = I.ctx.concretize(s.len)
        if a >= n or b >= n:
            raise PathEnd('panic', 'swap index out of bounds')
        items[st + a], items[st + b] = items[st + b], items[st + a]
        I.store_ref(s.base, I.with_items(c, items))
        return UNIT
    if op == 'fill':
        c = I.load_ref(s.base)
        items = list(I.container_items(c))
        st, n = I.ctx.concretize(s.start), I.ctx.concretize(s.len)
        for k in range(n):
            items[st + k] = args[1]
        I.store_ref(s.base, I.with_items(c, items))
        return UNIT
    raise Unsupported(op)


@model(r'^Vec::<.*>::(swap_remove|insert|retain|resize|split_off|drain|first|last|is_empty|capacity|reserve|shrink_to_fit|into_boxed_slice|iter|dedup_by_key)(?:::<.*>)?$')
def m_vec_more(I, fr, callee, m, args):
    op = m.group(1)
    v = I.load_ref(args[0]) if isinstance(args[0], Ref) else args[0]
    if op == 'swap_remove':
        k = I.ctx.concretize(args[1], limit=len(v.items) + 2)
        if k >= len(v.items):
            raise PathEnd('panic', 'swap_remove index out of bounds')
        items = list(v.items)
        x = items[k]
        items[k] = items[-1]
        items.pop()
        I.store_ref(args[0], VecV(items, v.is_string))
        return x
    if op == 'insert':
        k = I.ctx.concretize(args[1], limit=len(v.items) + 2)
        if k > len(v.items):
            raise PathEnd('panic', 'insert index out of bounds')
        items = list(v.items)
        items.insert(k, args[2])
        I.store_ref(args[0], VecV(items, v.is_string))
        return UNIT
    if op == 'retain':
        keep = []
        for x in v.items:
            if I.ctx.branch(I.call_closure(args[1], [I.new_ref(x, 'ret')])):
                keep.append(x)
        I.store_ref(args[0], VecV(keep, v.is_string))
        return UNIT
    if op == 'resize':
        n = I.ctx.concretize(args[1], limit=70000)
        items = list(v.items[:n]) + [args[2]] * max(0, n - len(v.items))
        I.store_ref(args[0], VecV(items, v.is_string))
        return UNIT
    if op == 'split_off':
        k = I.ctx.concretize(args[1], limit=len(v.items) + 2)
        if k > len(v.items):
            raise PathEnd('panic', 'split_off out of bounds')
        I.store_ref(args[0], VecV(v.items[:k], v.is_string))
        return VecV(v.items[k:], v.is_string)
    if op in ('capacity',):
        return usize(len(v.items))
    if op in ('reserve', 'shrink_to_fit'):
        return UNIT
    if op == 'into_boxed_slice':
        return v
    return NotImplemented


@model(r'^(?:std::iter::|core::iter::)?(once|empty|repeat)::<.*>$')
def m_iter_once(I, fr, callee, m, args):
    if m.group(1) == 'once':
        return IterV('list', items=(args[0],), i=0)
    if m.group(1) == 'empty':
        return IterV('list', items=(), i=0)
    raise Unsupported("iter::repeat")


@model(r'^Box::<\[.*; \d+\]>::new_uninit$')
def m_box_new_uninit(I, fr, callee, m, args):
    # lowering of vec![..]: the array is written through the raw pointer, then turned into a Vec
    return Agg('BoxUninit', (Agg('Unique', (Ref(Cell(None, 'boxuninit')),)),))


@model(r'^std::boxed::box_assume_init_into_vec_unsafe::<.*>$|^alloc::boxed::box_assume_init_into_vec_unsafe::<.*>$')
def m_box_into_vec(I, fr, callee, m, args):
    cell = args[0].f[0].f[0].cell
    v = cell.v
    while isinstance(v, Agg) and v.ty != 'array':
        v = [x for x in v.f if x is not None][0]
    return VecV(v.f)


@model(r'^<(HashSet|HashMap|BTreeMap|BTreeSet)<.*> as Extend<.*>>::extend::<.*>$')
def m_map_extend(I, fr, callee, m, args):
    ref = args[0]
    mv = I.load_ref(ref)
    is_set = m.group(1).endswith('Set')
    for x in iter_collect(I, to_iter(I, args[1])):
        if is_set:
            mv, _ = map_insert(I, mv, x, UNIT)
        else:
            mv, _ = map_insert(I, mv, x.f[0], x.f[1])
    I.store_ref(ref, mv)
    return UNIT


# ------------------------------------------------------------------ ordering of std values (sort, Ord)
def cmp_lt(I, a, b):
    """z3 Bool: a < b for scalars / refs to scalars / IpAddr / byte arrays (lexicographic)"""
    a, b = deref_val(I, a), deref_val(I, b)
    if isinstance(a, Sc):
        return zbool(I.binop('Lt', a, b))
    if isinstance(a, En) and a.ty == 'IpAddr':
        if a.var != b.var:
            return z3.BoolVal(a.var == 'V4')          # V4 < V6 (declaration order)
        return cmp_lt(I, a.f[0], b.f[0])
    if isinstance(a, Agg) and a.ty in ('Ipv4Addr', 'Ipv6Addr'):
        return cmp_lt(I, a.f[0], b.f[0])
    if isinstance(a, Agg) and a.ty in ('array', 'tuple'):
        lt = z3.BoolVal(False)
        for x, y in reversed(list(zip(a.f, b.f))):
            lt = z3.Or(cmp_lt(I, x, y), z3.And(I.value_eq(deref_val(I, x), deref_val(I, y)), lt))
        return lt
    raise Unsupported("ordering of %r" % (a,))


@model(r'^(?:(?:core|std|alloc)::)?slice::<impl \[.*\]>::(sort|sort_unstable)$|^Vec::<.*>::(sort|sort_unstable)$')
def m_sort_plain(I, fr, callee, m, args):
    s = as_slice(I, args[0])
    v = I.load_ref(s.base)
    out = []
    for x in I.container_items(v):
        pos = len(out)
        while pos > 0 and I.ctx.branch(cmp_lt(I, x, out[pos - 1])):
            pos -= 1
        out.insert(pos, x)
    I.store_ref(s.base, I.with_items(v, out))
    return UNIT


@model(r'^<(HashSet|HashMap)<.*> as PartialEq>::(eq|ne)$')
def m_hash_coll_eq(I, fr, callee, m, args):
    a, b = I.load_ref(args[0]), I.load_ref(args[1])
    if len(a.entries) != len(b.entries):
        e = z3.BoolVal(False)
    else:
        conj = []
        for ka, va in a.entries:
            alts = []
            for kb, vb in b.entries:
                c = eq_dispatch_deep(I, ka, kb)
                if m.group(1) == 'HashMap':
                    c = z3.And(c, eq_dispatch_deep(I, va, vb))
                alts.append(c)
            conj.append(z3.Or([z3.BoolVal(False)] + alts))
        e = z3.And([z3.BoolVal(True)] + conj)
    return sc_from(e if m.group(2) == 'eq' else z3.Not(e), 'bool')



def utf8_scan(I, xs):
    """std's run_utf8_validation on an INVALID byte list: -> (valid_up_to int, error_len int|None); forks per character"""
    n = len(xs)
    i = 0
    ctx = I.ctx

    def rng(b, lo, hi):
        return z3.And(z3.UGE(b, lo), z3.ULE(b, hi))
    while i < n:
        b0 = xs[i].z()
        w = 1 + ctx.decide([z3.ULE(b0, 0x7F), rng(b0, 0xC2, 0xDF), rng(b0, 0xE0, 0xEF), rng(b0, 0xF0, 0xF4),
                            z3.Or(rng(b0, 0x80, 0xC1), z3.UGE(b0, 0xF5))])
        if w == 1:
            i += 1
            continue
        if w == 5:
            return i, 1
        if i + 1 >= n:
            return i, None
        b1 = xs[i + 1].z()
        if w == 2:
            ok1 = rng(b1, 0x80, 0xBF)
        elif w == 3:
            ok1 = z3.Or(z3.And(b0 == 0xE0, rng(b1, 0xA0, 0xBF)), z3.And(rng(b0, 0xE1, 0xEC), rng(b1, 0x80, 0xBF)),
                        z3.And(b0 == 0xED, rng(b1, 0x80, 0x9F)), z3.And(rng(b0, 0xEE, 0xEF), rng(b1, 0x80, 0xBF)))
        else:
            ok1 = z3.Or(z3.And(b0 == 0xF0, rng(b1, 0x90, 0xBF)), z3.And(rng(b0, 0xF1, 0xF3), rng(b1, 0x80, 0xBF)),
                        z3.And(b0 == 0xF4, rng(b1, 0x80, 0x8F)))
        if not ctx.branch(ok1):
            return i, 1
        for k in range(2, w):
            if i + k >= n:
                return i, None
            if not ctx.branch(rng(xs[i + k].z(), 0x80, 0xBF)):
                return i, k
        i += w
    raise PathEnd('infeasible', 'utf8_scan on valid input')


@model(r'^(?:std::str::|core::str::)?Utf8Error::(valid_up_to|error_len)$|^(?:std::string::)?FromUtf8Error::(utf8_error|into_bytes|as_bytes)$')
def m_utf8_error(I, fr, callee, m, args):
    op = m.group(1) or m.group(2)
    e = deref_val(I, args[0])
    if op in ('valid_up_to', 'error_len'):
        up, el = utf8_scan(I, list(e.f[0].items))
        if op == 'valid_up_to':
            return usize(up)
        return NONE if el is None else Some(mk('u8', el) if False else usize(el))
    if op == 'utf8_error':
        return e.f[1]
    if op == 'into_bytes':
        return VecV(e.f[0].items, False)
    return SliceRef(I.new_ref(VecV(e.f[0].items), 'fu8'), usize(0), usize(len(e.f[0].items)))


@model(r'^(?:(?:core|std|alloc)::)?str::<impl str>::(find|contains|starts_with|ends_with)::<char>$')
def m_str_find_char(I, fr, callee, m, args):
    """str::find / contains / starts_with / ends_with with an ASCII char pattern (an ASCII byte never occurs inside a
    multi-byte sequence, so the search is byte-wise)"""
    op = m.group(1)
    s = as_slice(I, args[0])
    c = args[1]
    if not (c.concrete and c.e < 0x80):
        raise Unsupported("str::%s with a non-ASCII / symbolic char pattern" % op)
    xs = I.seq_list(s)
    pat = mk('u8', c.e)
    if op == 'starts_with':
        return sc_from(z3.BoolVal(False), 'bool') if not xs else I.binop('Eq', xs[0], pat)
    if op == 'ends_with':
        return sc_from(z3.BoolVal(False), 'bool') if not xs else I.binop('Eq', xs[-1], pat)
    for j, x in enumerate(xs):
        if I.ctx.branch(I.binop('Eq', x, pat)):
            return Some(usize(j)) if op == 'find' else TRUE
    return NONE if op == 'find' else FALSE
