"""MIR symbolic interpreter + path exploration (KLEE style, decision replay, no state merging)."""
import re, time
import z3
from . import mirparse as P
from .mirparse import INT_W, SIGNED
from .values import *
from .program import head, strip_lifetimes, split_generic


# =============================================================================== path context
class Ctx:
    """one path: solver + decision replay.  `prefix` is the list of decision indices to follow;
    new decisions beyond it are made here and the alternatives are reported to `fork`."""

    def __init__(self, prefix, fork, stats, timeout_ms=20000):
        self.prefix = list(prefix)
        self.pos = 0
        self.made = []                 # all decisions of this path (prefix + new)
        self.fork = fork               # callable(list_of_decisions)
        self.solver = z3.Solver()
        self.solver.set('timeout', timeout_ms)
        self.stats = stats
        self.pc = []                   # path condition (z3 Bools)
        self.notes = []
        self.fresh = 0

    def add(self, cond):
        cond = zbool(cond)
        if z3.is_true(cond):
            return
        self.pc.append(cond)
        self.solver.add(cond)
        self.last_model = None

    def check(self, *extra):
        t = time.time()
        r = self.solver.check(*[zbool(e) for e in extra])
        self.stats['queries'] = self.stats.get('queries', 0) + 1
        self.stats['solver_s'] = self.stats.get('solver_s', 0.0) + (time.time() - t)
        if r == z3.unknown:
            raise Unsupported("solver unknown: " + self.solver.reason_unknown())
        if r == z3.sat and extra:
            # remember the witness of the most recent satisfiable deciding query: Ctx.model() must return values that
            # exhibit the violation that was just found, not an arbitrary model of the path condition
            self.last_model = self.solver.model()
        return r == z3.sat

    def assume(self, cond):
        """add an assumption; path ends as infeasible if it contradicts the path condition"""
        c = z3.simplify(zbool(cond))
        if z3.is_false(c):
            raise PathEnd('infeasible', 'assume false')
        if z3.is_true(c):
            return
        self.add(c)
        if self.pos >= len(self.prefix) and not self.check():
            raise PathEnd('infeasible', 'assumption contradicts the path condition')

    def decide(self, conds, exhaustive=True):
        """choose one of the mutually exclusive conditions; returns its index"""
        cs = [z3.simplify(zbool(c)) for c in conds]
        alive = [i for i, c in enumerate(cs) if not z3.is_false(c)]
        if not alive:
            raise PathEnd('infeasible', 'no alternative')
        if len(alive) == 1 and exhaustive:
            self.add(cs[alive[0]])
            return alive[0]
        trues = [i for i in alive if z3.is_true(cs[i])]
        if trues:
            return trues[0]
        if self.pos < len(self.prefix):
            idx = self.prefix[self.pos]
            self.pos += 1
            self.made.append(idx)
            self.add(cs[idx])
            return idx
        feas = []
        for k, i in enumerate(alive):
            if exhaustive and k == len(alive) - 1 and not feas:
                feas.append(i)          # the last one must be feasible (conds cover the path condition)
            elif self.check(cs[i]):
                feas.append(i)
        if not feas:
            raise PathEnd('infeasible', 'no feasible alternative')
        for i in feas[1:]:
            self.fork(self.made + [i])
        self.pos += 1
        self.prefix.append(feas[0])
        self.made.append(feas[0])
        self.add(cs[feas[0]])
        return feas[0]

    def branch(self, cond):
        """True/False decision on a z3 Bool / Sc(bool)"""
        if isinstance(cond, Sc) and cond.concrete:
            return bool(cond.e)
        c = zbool(cond)
        return self.decide([c, z3.Not(c)]) == 0

    def concretize(self, sc, limit=64):
        """pick a concrete value for a symbolic scalar by forking over its feasible values"""
        if sc.concrete:
            return sc.e
        vals = []
        s = self.solver
        # enumerate feasible values (bounded)
        s.push()
        try:
            while len(vals) <= limit:
                t = time.time()
                r = s.check()
                self.stats['queries'] = self.stats.get('queries', 0) + 1
                self.stats['solver_s'] = self.stats.get('solver_s', 0.0) + (time.time() - t)
                if r != z3.sat:
                    break
                v = s.model().eval(sc.z(), model_completion=True).as_long()
                vals.append(v)
                s.add(sc.z() != v)
        finally:
            s.pop()
        if len(vals) > limit:
            raise Unsupported("concretize: more than %d feasible values" % limit)
        if not vals:
            raise PathEnd('infeasible', 'concretize')
        vals.sort()
        i = self.decide([sc.z() == v for v in vals], exhaustive=True)
        return vals[i]

    def fresh_name(self, base):
        self.fresh += 1
        return '%s!%d' % (base, self.fresh)

    def model(self):
        if getattr(self, 'last_model', None) is not None:
            return self.last_model
        if not self.check():
            return None
        return self.solver.model()


# =============================================================================== interpreter
class Frame:
    __slots__ = ('fn', 'cells', 'subst', 'visits')

    def __init__(self, fn, subst):
        self.fn = fn
        self.cells = {}
        self.subst = subst
        self.visits = {}


_BIN_CMP = {'Eq', 'Ne', 'Lt', 'Le', 'Gt', 'Ge'}


class Interp:
    def __init__(self, prog, ctx, loop_bound=16, step_budget=200000, models=None):
        self.prog = prog
        self.ctx = ctx
        self.loop_bound = loop_bound
        self.loop_bound_for = {}     # function object -> its own (larger) bound
        self.bound_fn = None
        self.steps = step_budget
        from . import models as M
        self.models = M
        self.depth = 0
        self.trace_calls = False
        self.hooks = {}            # callee-regex -> python callable (spec-level stubs)
        self.events = []           # models may record events (allocations, writes..)
        self.called = set()
        self.stop_at = None        # (Function, bb): inductive mode, stop when the loop head is re-entered
        self.watch = None          # (Function, bb, local): record the local's value at every visit of the block
        self.watch_log = []

    # ---------------------------------------------------------------- scalars
    def binop(self, op, a, b):
        if not isinstance(a, Sc) or not isinstance(b, Sc):
            if op in ('Eq', 'Ne'):
                e = self.value_eq(a, b)
                return sc_from(e if op == 'Eq' else z3.Not(e), 'bool')
            raise Unsupported("binop %s on %r,%r" % (op, a, b))
        ty = a.ty
        if op.endswith('WithOverflow'):
            base = op[:-len('WithOverflow')]
            res = self.binop(base, a, b)
            ov = self.overflow(base, a, b)
            return Agg('tuple', (res, ov))
        if op.endswith('Unchecked'):
            op = op[:-len('Unchecked')]
        if ty == 'bool':
            if a.concrete and b.concrete:
                x, y = a.e, b.e
                r = {'BitAnd': x & y, 'BitOr': x | y, 'BitXor': x ^ y, 'Eq': int(x == y), 'Ne': int(x != y),
                     'Lt': int(x < y), 'Le': int(x <= y), 'Gt': int(x > y), 'Ge': int(x >= y)}[op]
                return Sc(r, 'bool')
            x, y = a.z(), b.z()
            r = {'BitAnd': lambda: z3.And(x, y), 'BitOr': lambda: z3.Or(x, y), 'BitXor': lambda: z3.Xor(x, y),
                 'Eq': lambda: x == y, 'Ne': lambda: x != y}[op]()
            return sc_from(r, 'bool')
        w = INT_W[ty]
        sg = ty in SIGNED
        if op in ('Shl', 'Shr') and b.ty != ty:
            # shift amount may have another width
            if b.concrete:
                b = mk(ty, b.e)
            else:
                bw = INT_W[b.ty]
                b = Sc(z3.ZeroExt(w - bw, b.e) if bw < w else z3.Extract(w - 1, 0, b.e), ty)
        if a.concrete and b.concrete:
            x, y = a.e, b.e
            m = (1 << w) - 1
            if op in _BIN_CMP:
                if sg:
                    x, y = signed_val(x, ty), signed_val(y, ty)
                return Sc(int({'Eq': x == y, 'Ne': x != y, 'Lt': x < y, 'Le': x <= y, 'Gt': x > y, 'Ge': x >= y}[op]), 'bool')
            if op == 'Add':
                return Sc((x + y) & m, ty)
            if op == 'Sub':
                return Sc((x - y) & m, ty)
            if op == 'Mul':
                return Sc((x * y) & m, ty)
            if op == 'BitAnd':
                return Sc(x & y, ty)
            if op == 'BitOr':
                return Sc(x | y, ty)
            if op == 'BitXor':
                return Sc(x ^ y, ty)
            if op == 'Shl':
                return Sc((x << (y % w)) & m, ty)
            if op == 'Shr':
                if sg:
                    return Sc((signed_val(x, ty) >> (y % w)) & m, ty)
                return Sc(x >> (y % w), ty)
            if op in ('Div', 'Rem'):
                if y == 0:
                    raise PathEnd('panic', 'division by zero')
                if sg:
                    xs, ys = signed_val(x, ty), signed_val(y, ty)
                    q = abs(xs) // abs(ys)
                    if (xs < 0) != (ys < 0):
                        q = -q
                    r = xs - q * ys
                    return Sc((q if op == 'Div' else r) & m, ty)
                return Sc(x // y if op == 'Div' else x % y, ty)
            if op == 'Cmp':
                if sg:
                    x, y = signed_val(x, ty), signed_val(y, ty)
                return En('Ordering', 'Less' if x < y else ('Equal' if x == y else 'Greater'))
            raise Unsupported("binop " + op)
        x, y = a.z(), b.z()
        if op in _BIN_CMP:
            if op == 'Eq':
                r = x == y
            elif op == 'Ne':
                r = x != y
            elif sg:
                r = {'Lt': x < y, 'Le': x <= y, 'Gt': x > y, 'Ge': x >= y}[op]
            else:
                r = {'Lt': z3.ULT(x, y), 'Le': z3.ULE(x, y), 'Gt': z3.UGT(x, y), 'Ge': z3.UGE(x, y)}[op]
            return sc_from(r, 'bool')
        if op == 'Add':
            r = x + y
        elif op == 'Sub':
            r = x - y
        elif op == 'Mul':
            r = x * y
        elif op == 'BitAnd':
            r = x & y
        elif op == 'BitOr':
            r = x | y
        elif op == 'BitXor':
            r = x ^ y
        elif op == 'Shl':
            r = x << z3.URem(y, z3.BitVecVal(w, w))
        elif op == 'Shr':
            yy = z3.URem(y, z3.BitVecVal(w, w))
            r = (x >> yy) if sg else z3.LShR(x, yy)
        elif op in ('Div', 'Rem'):
            if self.ctx.branch(y == 0):
                raise PathEnd('panic', 'division by zero')
            if sg:
                r = (x / y) if op == 'Div' else z3.SRem(x, y)
            else:
                r = z3.UDiv(x, y) if op == 'Div' else z3.URem(x, y)
        elif op == 'Cmp':
            lt = (x < y) if sg else z3.ULT(x, y)
            k = self.ctx.decide([lt, x == y, z3.And(z3.Not(lt), x != y)])
            return En('Ordering', ('Less', 'Equal', 'Greater')[k])
        else:
            raise Unsupported("binop " + op)
        return sc_from(r, ty)

    def overflow(self, op, a, b):
        ty = a.ty
        w = INT_W[ty]
        sg = ty in SIGNED
        if a.concrete and b.concrete:
            x, y = (signed_val(a.e, ty), signed_val(b.e, ty)) if sg else (a.e, b.e)
            r = {'Add': x + y, 'Sub': x - y, 'Mul': x * y}[op]
            lo, hi = (-(1 << (w - 1)), (1 << (w - 1)) - 1) if sg else (0, (1 << w) - 1)
            return Sc(int(r < lo or r > hi), 'bool')
        x, y = a.z(), b.z()
        if op == 'Add':
            ok = z3.And(z3.BVAddNoOverflow(x, y, sg), z3.BVAddNoUnderflow(x, y) if sg else z3.BoolVal(True))
        elif op == 'Sub':
            ok = z3.And(z3.BVSubNoUnderflow(x, y, sg), z3.BVSubNoOverflow(x, y) if sg else z3.BoolVal(True))
        else:
            ok = z3.And(z3.BVMulNoOverflow(x, y, sg), z3.BVMulNoUnderflow(x, y) if sg else z3.BoolVal(True))
        return sc_from(z3.Not(ok), 'bool')

    def cast_int(self, v, to):
        if to == 'bool':
            return v
        frm = v.ty
        wt = INT_W[to]
        if frm == 'bool':
            if v.concrete:
                return mk(to, v.e)
            return sc_from(z3.If(v.e, z3.BitVecVal(1, wt), z3.BitVecVal(0, wt)), to)
        wf = INT_W[frm]
        if v.concrete:
            x = signed_val(v.e, frm) if frm in SIGNED else v.e
            return mk(to, x)
        if wt == wf:
            return Sc(v.e, to)
        if wt < wf:
            return sc_from(z3.Extract(wt - 1, 0, v.e), to)
        if frm in SIGNED:
            return sc_from(z3.SignExt(wt - wf, v.e), to)
        return sc_from(z3.ZeroExt(wt - wf, v.e), to)

    # ---------------------------------------------------------------- memory
    def container_items(self, c):
        if isinstance(c, ArrBuf):
            return c
        if isinstance(c, VecV):
            return c.items
        if isinstance(c, Agg):
            return c.f
        if isinstance(c, BoxV):
            return self.container_items(c.v)
        raise Unsupported("not a container: %r" % (c,))

    def with_items(self, c, items):
        if isinstance(c, VecV):
            return VecV(items, c.is_string)
        if isinstance(c, Agg):
            return Agg(c.ty, items)
        raise Unsupported("not a container: %r" % (c,))

    def select(self, items, idx):
        """items[idx] with symbolic idx (caller guarantees bounds on the path)"""
        if isinstance(items, ArrBuf):
            return sc_from(z3.Select(items.arr, idx.z()), 'u8')
        if idx.concrete:
            if idx.e >= len(items):
                raise PathEnd('infeasible', 'select out of range')
            return items[idx.e]
        if not items:
            raise PathEnd('infeasible', 'select from empty')
        first = items[0]
        if not isinstance(first, Sc):
            k = self.ctx.concretize(idx, limit=max(64, len(items)))
            return items[k]
        ty = first.ty
        r = items[-1].z()
        ie = idx.z()
        for k in range(len(items) - 2, -1, -1):
            r = z3.If(ie == k, items[k].z(), r)
        return sc_from(r, ty)

    def step_value(self, v, step):
        if isinstance(step, int):
            if isinstance(v, (Agg, En)):
                if step >= len(v.f):
                    raise Unsupported("field %d of %r" % (step, v))
                return v.f[step]
            if isinstance(v, BoxV) and step == 0:
                return v.v
            if isinstance(v, SliceRef):      # fat pointer fields are never projected in this code base
                raise Unsupported("field of slice ref")
            if isinstance(v, CursorV):
                return (v.inner, v.pos)[step]
            if v is None:
                return None
            raise Unsupported("field %d of %r" % (step, v))
        if step[0] == 'i':
            return self.select(self.container_items(v), step[1])
        if step[0] == 'box':
            return v.v
        if step[0] == 'ent':
            return v.entries[step[1]][1]
        if step[0] == 'entk':
            return v.entries[step[1]][0]
        raise Unsupported("step %r" % (step,))

    def load(self, cell, path):
        v = cell.v
        for st in path:
            v = self.step_value(v, st)
        return v

    def _update(self, v, path, new):
        if not path:
            return new
        st = path[0]
        if isinstance(st, int):
            if v is None:
                v = Agg('?', ())
            if isinstance(v, (Agg, En)):
                cur = v.f[st] if st < len(v.f) else None
                return v.with_field(st, self._update(cur, path[1:], new))
            if isinstance(v, BoxV):
                return BoxV(self._update(v.v, path[1:], new))
            if isinstance(v, CursorV):
                if st == 0:
                    return CursorV(self._update(v.inner, path[1:], new), v.pos)
                return CursorV(v.inner, self._update(v.pos, path[1:], new))
            raise Unsupported("store field into %r" % (v,))
        if st[0] == 'i':
            idx = st[1]
            k = idx.e if idx.concrete else self.ctx.concretize(idx)
            items = list(self.container_items(v))
            if k >= len(items):
                raise PathEnd('infeasible', 'store out of range')
            items[k] = self._update(items[k], path[1:], new)
            return self.with_items(v, items)
        if st[0] == 'box':
            return BoxV(self._update(v.v, path[1:], new))
        if st[0] == 'ent':
            i = st[1]
            k0, v0 = v.entries[i]
            return MapV(v.kind, v.entries[:i] + ((k0, self._update(v0, path[1:], new)),) + v.entries[i + 1:])
        raise Unsupported("store step %r" % (st,))

    def store(self, cell, path, new):
        cell.v = self._update(cell.v, path, new)

    def load_ref(self, r):
        if isinstance(r, Ref):
            return self.load(r.cell, r.path)
        raise Unsupported("load through %r" % (r,))

    def store_ref(self, r, v):
        if isinstance(r, Ref):
            return self.store(r.cell, r.path, v)
        raise Unsupported("store through %r" % (r,))

    def new_ref(self, v, name='tmp'):
        return Ref(Cell(v, name))

    # ---------------------------------------------------------------- places
    def resolve(self, fr, place):
        """-> (cell, path, slice_view or None).  slice_view = (start Sc, len Sc) when the place is an unsized
        slice reached through a SliceRef"""
        cell = fr.cells.get(place.local)
        if cell is None:
            cell = fr.cells[place.local] = Cell(None, place.local)
        path = ()
        view = None
        for pr in place.proj:
            k = pr[0]
            if k == 'deref':
                v = self.load(cell, path)
                if isinstance(v, Ref):
                    cell, path, view = v.cell, v.path, None
                elif isinstance(v, SliceRef):
                    cell, path = v.base.cell, v.base.path
                    view = (v.start, v.len)
                elif isinstance(v, BoxV):
                    path = path + (('box',),)
                    view = None
                else:
                    raise Unsupported("deref of %r (%s in %s)" % (v, place, fr.fn.name))
            elif k == 'field':
                path = path + (pr[1],)
                view = None
            elif k == 'downcast':
                pass
            elif k == 'index':
                idx = self.load(fr.cells[pr[1]], ())
                if view is not None:
                    idx = self.binop('Add', view[0], idx)
                    view = None
                path = path + (('i', idx),)
            elif k == 'cindex':
                i, from_end = pr[1], pr[2]
                if view is not None:
                    ln = view[1]
                    base = view[0]
                    if from_end:
                        idx = self.binop('Sub', self.binop('Add', base, ln), mk('usize', i))
                    else:
                        idx = self.binop('Add', base, mk('usize', i))
                    view = None
                else:
                    n = len(self.container_items(self.load(cell, path)))
                    idx = mk('usize', n - i if from_end else i)
                path = path + (('i', idx),)
            else:
                raise Unsupported("projection " + k)
        return cell, path, view

    def read_place(self, fr, place):
        cell, path, view = self.resolve(fr, place)
        if view is not None:
            raise Unsupported("read of unsized slice place")
        return self.load(cell, path)

    def write_place(self, fr, place, v):
        cell, path, view = self.resolve(fr, place)
        if view is not None:
            raise Unsupported("write of unsized slice place")
        if not path:
            cell.v = v
        else:
            self.store(cell, path, v)

    # ---------------------------------------------------------------- operands / constants
    def operand(self, fr, op):
        if op.kind == 'const':
            return self.const(fr, op.const)
        return self.read_place(fr, op.place)

    _re_lit = re.compile(r'^(-?\d+)_(u8|u16|u32|u64|u128|usize|i8|i16|i32|i64|i128|isize)$')

    def const(self, fr, text):
        text = text.strip()
        m = self._re_lit.match(text)
        if m:
            return mk(m.group(2), int(m.group(1)))
        if text == 'true':
            return TRUE
        if text == 'false':
            return FALSE
        if text == '()':
            return UNIT
        if text == '[]' or text.startswith('[]:'):
            return Agg('array', ())
        if text.startswith('ZeroSized: '):
            t = text[len('ZeroSized: '):].strip()
            if t.startswith('{closure@'):
                return Agg(t, ())
            if t.startswith('fn('):
                # fn item type: "fn(A) -> B {path}"
                k = t.rfind('{')
                return FnVal(self.subst_text(fr, t[k + 1:-1]))
            return Agg(t, ())
        if text.startswith('b"') or text.startswith('"'):
            return self.bytes_const(text)
        if text.startswith("'"):
            return mk('char', ord(_unescape(text[1:-1])))
        m = re.match(r'^(.*)::promoted\[(\d+)\]$', text)
        if m:
            return self.promoted(fr, int(m.group(2)))
        m = re.match(r'^(-?[\d.]+(?:[eE][+-]?\d+)?)_?f(32|64)$', text)
        if m:
            raise Unsupported("float const")
        if text == 'RangeFull':
            return Agg('RangeFull', ())
        # "Type::Variant(..)" constant aggregates, e.g. Result::<Infallible, E>::Err(TryFromSliceError(()))
        if text.endswith(')') and '::' in text and not text.startswith('<'):
            rv = P.parse_rvalue(text.replace('(())', '(const ())'))
            if rv.kind == 'variant':
                try:
                    return self.rvalue(fr, rv)
                except P.ParseError:
                    pass
        # named constants: "const dns::MAX_NAME_LENGTH", "<X as RR>::TYPE_CODE", "dns::PacketFlag::RESPONSE"
        v = self.named_const(fr, text)
        if v is not None:
            return v
        # function items used as values
        return FnVal(self.subst_text(fr, text))

    def bytes_const(self, text):
        is_str = not text.startswith('b')
        body = text[2:-1] if not is_str else text[1:-1]
        bs = _unescape_bytes(body, is_str)
        arr = Agg('array', [mk('u8', b) for b in bs])
        r = Ref(Cell(arr, 'lit'))
        if is_str:
            return SliceRef(r, mk('usize', 0), mk('usize', len(bs)), True)
        return r   # &[u8; N]; unsize casts turn it into a slice

    def promoted(self, fr, k):
        name = fr.fn.name + '::promoted[%d]' % k
        c = self.prog.consts.get(name)
        if not c:
            raise Unsupported("promoted const " + name)
        ty, f = c[0]
        if isinstance(f, P.Function):
            return self.call_function(f, [], fr.subst)
        return self.const(fr, f)

    def named_const(self, fr, text):
        t = strip_lifetimes(self.subst_text(fr, text))
        m = re.match(r'^<(.*) as (.*)>::(\w+)$', t)
        cands = []
        if m:
            sh = head(m.group(1))
            for name, lst in self.prog.consts.items():
                if name.endswith('::' + m.group(3)) and '<impl at' in name:
                    cands.append((name, lst))
            # choose the impl whose Self matches
            best = []
            for name, lst in cands:
                mm = self.prog._re_impl_span.search(name)
                info = self.prog._impl_info(mm) if mm else None
                if info and (head(info.self_ty) == sh):
                    best.append(lst)
            if len(best) == 1:
                return self._const_value(fr, best[0][0])
            # macro impls (Self = $t): TYPE_CODE of rr_wrapper types; resolve by source scan
            v = self.models.macro_assoc_const(self, sh, m.group(3))
            if v is not None:
                return v
            return self.models.named_const(self, t)
        last = t.rsplit('::', 1)[-1]
        if last in self.prog.consts and len(self.prog.consts[last]) == 1:
            return self._const_value(fr, self.prog.consts[last][0])
        # bitflags constants and associated consts "Type::NAME"
        for name, lst in self.prog.consts.items():
            if name.endswith('::' + last) and len(lst) == 1:
                cands.append(lst[0])
        if len(cands) == 1:
            return self._const_value(fr, cands[0])
        return self.models.named_const(self, t)

    def _const_value(self, fr, entry):
        ty, v = entry
        if isinstance(v, P.Function):
            return self.call_function(v, [], {})
        return self.const(fr, v)

    def subst_text(self, fr, text):
        if fr is None or not fr.subst:
            return text
        for k, v in fr.subst.items():
            text = re.sub(r'(?<![\w:])' + re.escape(k) + r'(?![\w])', v, text)
        return text

    # ---------------------------------------------------------------- rvalues
    def rvalue(self, fr, rv, hint=None):
        k = rv.kind
        if k == 'use':
            return self.operand(fr, rv.a)
        if k == 'ref':
            cell, path, view = self.resolve(fr, rv.a)
            if view is not None:
                return SliceRef(Ref(cell, path), view[0], view[1])
            return Ref(cell, path, rv.b)
        if k == 'bin':
            return self.binop(rv.a, self.operand(fr, rv.b), self.operand(fr, rv.c))
        if k == 'un':
            v = self.operand(fr, rv.b)
            if rv.a == 'Not':
                if v.ty == 'bool':
                    return Sc(1 - v.e, 'bool') if v.concrete else sc_from(z3.Not(v.e), 'bool')
                return mk(v.ty, ~v.e) if v.concrete else sc_from(~v.e, v.ty)
            if rv.a == 'Neg':
                return mk(v.ty, -v.e) if v.concrete else sc_from(-v.e, v.ty)
            if rv.a == 'PtrMetadata':
                return self.ptr_len(v)
            raise Unsupported("unop " + rv.a)
        if k == 'cast':
            return self.cast(fr, self.operand(fr, rv.a), rv.b, rv.c)
        if k == 'discr':
            v = self.read_place(fr, rv.a)
            if isinstance(v, En):
                d = self.prog.discr_of(v.ty, v.var)
                return mk('isize', d)
            raise Unsupported("discriminant of %r" % (v,))
        if k == 'len':
            v = self.read_place(fr, rv.a)
            return mk('usize', len(self.container_items(v)))
        if k == 'tuple':
            return Agg('tuple', [self.operand(fr, o) for o in rv.a])
        if k == 'array':
            return Agg('array', [self.operand(fr, o) for o in rv.a])
        if k == 'repeat':
            v = self.operand(fr, rv.a)
            n = self.const(fr, rv.b.replace('const ', '')) if not rv.b.strip().isdigit() else mk('usize', int(rv.b))
            return Agg('array', [v] * n.e)
        if k == 'struct':
            hd = strip_lifetimes(rv.a)
            if hd.startswith('{closure@'):
                return Agg(hd, [self.operand(fr, o) for _, o in rv.b])
            base, _ = split_generic(hd)
            parts = base.split('::')
            th = parts[-1]
            if th in self.prog.structs:
                order = self.prog.structs[th]
                vals = {fn: self.operand(fr, o) for fn, o in rv.b}
                return Agg(th, [vals.get(fn) for fn in order])
            # enum struct-variant  Type::Variant { f: .. }
            if len(parts) >= 2 and parts[-2] in self.prog.enums:
                return En(parts[-2], th, [self.operand(fr, o) for _, o in rv.b])
            raise Unsupported("struct aggregate " + hd)
        if k == 'variant':
            hd = strip_lifetimes(rv.a)
            vals = [self.operand(fr, o) for o in rv.b]
            # strip generic args at any level:  Result::<A, B>::Err  -> Result::Err
            flat = _strip_generics(hd)
            parts = flat.split('::')
            if len(parts) >= 2 and parts[-2] in self.prog.enums and \
                    any(n == parts[-1] for n, _ in self.prog.enums[parts[-2]]):
                return En(parts[-2], parts[-1], vals)
            th = parts[-1]
            if len(parts) == 1 and hint:
                eh = head(hint)
                if eh in self.prog.enums and any(n == th for n, _ in self.prog.enums[eh]):
                    return En(eh, th, vals)
            if th in self.prog.structs and not vals:
                return Agg(th, ())
            # tuple struct constructor
            return Agg(th, vals)
        raise Unsupported("rvalue " + k)

    def ptr_len(self, v):
        if isinstance(v, SliceRef):
            return v.len
        if isinstance(v, Ref):
            c = self.load_ref(v)
            if isinstance(c, ArrBuf):
                return c.len
            return mk('usize', len(self.container_items(c)))
        raise Unsupported("PtrMetadata of %r" % (v,))

    def cast(self, fr, v, to, kind):
        to = strip_lifetimes(self.subst_text(fr, to))
        if kind in ('IntToInt',):
            if isinstance(v, En):
                d = self.prog.discr_of(v.ty, v.var)
                return mk(to, d)
            return self.cast_int(v, to)
        if kind.startswith('PointerCoercion(Unsize'):
            if to.startswith('&dyn') or to.startswith('&mut dyn') or 'dyn ' in to:
                return v
            if isinstance(v, Ref):
                c = self.load_ref(v)
                n = len(self.container_items(c))
                return SliceRef(v, mk('usize', 0), mk('usize', n), to.endswith('str'))
            return v
        if kind.startswith('PointerCoercion') or kind in ('PtrToPtr', 'Transmute', 'FnPtrToPtr'):
            return v
        raise Unsupported("cast kind " + kind)

    # ---------------------------------------------------------------- equality of values
    def value_eq(self, a, b):
        """structural equality as z3 Bool (used for std types; crate types with manual PartialEq go
        through their MIR via models.eq_dispatch)"""
        if isinstance(a, Sc) and isinstance(b, Sc):
            if a.concrete and b.concrete:
                return z3.BoolVal(a.e == b.e)
            return a.z() == b.z()
        if isinstance(a, Ref) and isinstance(b, Ref):
            return self.value_eq(self.load_ref(a), self.load_ref(b))
        if isinstance(a, (SliceRef, VecV)) or isinstance(b, (SliceRef, VecV)):
            return self.seq_eq(a, b)
        if isinstance(a, Agg) and isinstance(b, Agg):
            if len(a.f) != len(b.f):
                return z3.BoolVal(False)
            return z3.And([z3.BoolVal(True)] + [self.value_eq(x, y) for x, y in zip(a.f, b.f)])
        if isinstance(a, En) and isinstance(b, En):
            if a.ty == 'Cow' and b.ty == 'Cow':
                return self.seq_eq(a.f[0], b.f[0])
            if a.var != b.var:
                return z3.BoolVal(False)
            return z3.And([z3.BoolVal(True)] + [self.value_eq(x, y) for x, y in zip(a.f, b.f)])
        if a is None and b is None:
            return z3.BoolVal(True)
        if isinstance(a, MapV) and isinstance(b, MapV):
            return self.models.map_eq(self, a, b)
        raise Unsupported("value_eq %r / %r" % (a, b))

    def seq_items(self, s):
        """-> (items list or None, start Sc, len Sc, container)"""
        if isinstance(s, VecV):
            return s.items, mk('usize', 0), mk('usize', len(s.items))
        if isinstance(s, SliceRef):
            c = self.load_ref(s.base)
            return self.container_items(c), s.start, s.len
        if isinstance(s, Ref):
            return self.seq_items(self.load_ref(s))
        if isinstance(s, Agg):
            return s.f, mk('usize', 0), mk('usize', len(s.f))
        if isinstance(s, En) and s.ty == 'Cow':
            return self.seq_items(s.f[0])
        raise Unsupported("seq_items %r" % (s,))

    def seq_list(self, s):
        """materialise a sequence as a python list (concretises start/len by forking)"""
        items, st, ln = self.seq_items(s)
        n = self.ctx.concretize(ln, limit=max(64, len(items) + 1))
        if n == 0:
            return []
        if st.concrete:
            return list(items[st.e:st.e + n])
        return [self.select(items, self.binop('Add', st, mk('usize', k))) for k in range(n)]

    def seq_eq(self, a, b):
        ia, sa, la = self.seq_items(a)
        ib, sb, lb = self.seq_items(b)
        if la.concrete and lb.concrete:
            if la.e != lb.e:
                return z3.BoolVal(False)
            xs, ys = self.seq_list(a), self.seq_list(b)
            return z3.And([z3.BoolVal(True)] + [self.elem_eq(x, y) for x, y in zip(xs, ys)])
        # symbolic lengths: lens equal and elementwise equality up to the maximal possible length
        cap = min(len(ia), len(ib))
        conj = [la.z() == lb.z()]
        for k in range(cap):
            kk = mk('usize', k)
            x = self.select(ia, self.binop('Add', sa, kk)) if k < len(ia) else None
            y = self.select(ib, self.binop('Add', sb, kk)) if k < len(ib) else None
            conj.append(z3.Implies(z3.ULT(z3.BitVecVal(k, 64), la.z()), self.elem_eq(x, y)))
        conj.append(z3.ULE(la.z(), z3.BitVecVal(cap, 64)))
        return z3.And(conj)

    def elem_eq(self, x, y):
        if isinstance(x, Sc):
            return self.value_eq(x, y)
        return self.models.eq_dispatch(self, x, y)

    # ---------------------------------------------------------------- calls
    def call_function(self, f, args, subst):
        if self.depth > 60:
            raise Unsupported("call depth")
        fr = Frame(f, subst)
        for (l, t), a in zip(f.params, args):
            fr.cells[l] = Cell(a, l)
        self.depth += 1
        self.called.add(f.name)
        try:
            return self.run(fr, 'bb0')
        finally:
            self.depth -= 1

    def run(self, fr, bb):
        blocks = fr.fn.blocks
        ctx = self.ctx
        while True:
            self.steps -= 1
            if self.steps <= 0:
                raise PathEnd('bound', 'step budget')
            n = fr.visits.get(bb, 0) + 1
            fr.visits[bb] = n
            if self.stop_at is not None and n > 1 and bb == self.stop_at[1] and fr.fn is self.stop_at[0]:
                raise LoopBack(fr)
            if self.watch is not None and bb == self.watch[1] and fr.fn is self.watch[0]:
                c = fr.cells.get(self.watch[2])
                self.watch_log.append(c.v if c is not None else None)
            if n > self.loop_bound and n > self.loop_bound_for.get(fr.fn, 0):
                self.bound_fn = fr.fn
                raise PathEnd('bound', 'loop bound %d at %s %s' % (max(self.loop_bound, self.loop_bound_for.get(fr.fn, 0)),
                                                                    fr.fn.name.rsplit('::', 1)[-1], bb))
            stmts, term = blocks[bb]
            for s in stmts:
                if s.kind == 'assign':
                    hint = fr.fn.locals.get(s.place.local) if (s.rv.kind == 'variant' and not s.place.proj) else None
                    try:
                        self.write_place(fr, s.place, self.rvalue(fr, s.rv, hint))
                    except Unsupported as e:
                        if ' @ ' not in str(e):
                            raise Unsupported('%s @ %s: %s' % (e, fr.fn.name[-50:], s.text[:160]))
                        raise
                elif s.kind == 'setdiscr':
                    raise Unsupported("SetDiscriminant")
            k = term.kind
            if k == 'goto':
                bb = term.a
            elif k == 'switch':
                v = self.operand(fr, term.a)
                if not isinstance(v, Sc):
                    raise Unsupported("switch on %r" % (v,))
                if v.concrete:
                    val = v.e
                    if v.ty in SIGNED:
                        val = signed_val(val, v.ty)
                    tgt = term.c
                    for tv, tb in term.b:
                        if tv == val or (tv & ((1 << width(v.ty)) - 1)) == v.e:
                            tgt = tb
                            break
                    bb = tgt
                else:
                    conds, tgts = [], []
                    ze = v.z()
                    for tv, tb in term.b:
                        if v.ty == 'bool':
                            c = ze if tv else z3.Not(ze)
                        else:
                            c = ze == z3.BitVecVal(tv, width(v.ty))
                        conds.append(c)
                        tgts.append(tb)
                    if term.c is not None:
                        conds.append(z3.Not(z3.Or(conds)) if conds else z3.BoolVal(True))
                        tgts.append(term.c)
                    bb = tgts[ctx.decide(conds)]
            elif k == 'call':
                ret = self.do_call(fr, term.b, [self.operand(fr, a) for a in term.c])
                if term.d is None:
                    raise PathEnd('abort', 'diverging call returned: ' + term.b)
                self.write_place(fr, term.a, ret)
                bb = term.d
            elif k == 'assert':
                c = self.operand(fr, term.a)
                if term.b:
                    c = Sc(1 - c.e, 'bool') if c.concrete else sc_from(z3.Not(c.e), 'bool')
                if not ctx.branch(c):
                    raise PathEnd('panic', '%s [%s]' % (term.c.strip('"')[:70], fr.fn.name.rsplit('>::', 1)[-1]))
                bb = term.d
            elif k == 'drop':
                bb = term.b
            elif k == 'return':
                c = fr.cells.get('_0')
                return c.v if c is not None else UNIT
            elif k == 'unreachable':
                raise PathEnd('unreachable', fr.fn.name)
            else:
                raise PathEnd('abort', k)

    def do_call(self, fr, callee, args):
        callee_s = strip_lifetimes(self.subst_text(fr, callee))
        for rx, fn in self.hooks.items():
            m = re.search(rx, callee_s)
            if m:
                r = fn(self, fr, callee_s, args)
                if r is not NotImplemented:
                    return r
        if self.trace_calls:
            print('  ' * self.depth + 'call', callee_s)
        r = self.models.dispatch(self, fr, callee_s, args)
        if r is not NotImplemented:
            return r
        f, subst = self.resolve_fn(fr, callee_s, args)
        if f is None:
            raise Unsupported("no model and no MIR for: " + callee_s)
        return self.call_function(f, args, subst)

    # callee text -> crate function
    def resolve_fn(self, fr, callee, args):
        prog = self.prog
        c = callee
        margs = []
        # trailing method generics  ::<..>
        if c.endswith('>'):
            k = _last_turbofish(c)
            if k is not None:
                margs = P.split_top(c[k + 3:-1])
                c = c[:k]
        m = re.match(r'^<(.*) as (.*)>::(\w+)$', c)
        cands = []
        if m:
            sh = head(m.group(1))
            tr = m.group(2)
            method = m.group(3)
            lst = prog.methods.get((sh, method), [])
            trh, tra = split_generic(tr)
            trh = trh.rsplit('::', 1)[-1]
            for t, f in lst:
                if t is None:
                    continue
                th, ta = split_generic(t)
                if th.rsplit('::', 1)[-1] != trh:
                    continue
                if tra and ta and head(tra[0]) != head(ta[0]):
                    continue
                cands.append(f)
            if not cands:
                # default method body of the trait itself ("fn Trait::method")
                for f in prog.free.get(method, []):
                    if f.name == trh + '::' + method or f.name.endswith('::' + trh + '::' + method):
                        return f, dict({'Self': m.group(1)}, **self._bind_generics(f, margs))
            if not cands and trh == 'Into':
                # blanket Into<U> for T  ==  <U as From<T>>::from
                tgt = head(tra[0]) if tra else None
                for t, f in prog.methods.get((tgt, 'from'), []):
                    th, ta = split_generic(t or '')
                    if ta and _arr_norm(head(ta[0])) == _arr_norm(sh):
                        cands.append(f)
            if not cands and trh == 'TryInto':
                tgt = head(tra[0]) if tra else None
                for t, f in prog.methods.get((tgt, 'try_from'), []):
                    th, ta = split_generic(t or '')
                    if ta and head(ta[0]) == sh:
                        cands.append(f)
        else:
            flat = _strip_generics(c)
            parts = flat.split('::')
            if len(parts) >= 2:
                lst = prog.methods.get((parts[-2], parts[-1]), [])
                cands = [f for t, f in lst if t is None] or [f for t, f in lst]
            if not cands:
                cands = list(prog.free.get(parts[-1], []))
                if len(cands) > 1:
                    # disambiguate by module path suffix
                    cc = [f for f in cands if f.name.endswith(flat) or flat.endswith(f.name)]
                    cands = cc or cands
        if not cands:
            return None, None
        if len(cands) > 1:
            cands = [f for f in cands if len(f.params) == len(args)] or cands
        if len(cands) > 1:
            raise Unsupported("ambiguous callee %s: %s" % (callee, [f.name for f in cands]))
        f = cands[0]
        return f, self._bind_generics(f, margs)

    def _bind_generics(self, f, margs):
        subst = {}
        gens = self.prog.generics_of(f)
        for gname, garg in zip(gens, margs):
            subst[gname] = garg
        return subst

    def call_closure(self, clo, args):
        """clo: Agg(closure type) | FnVal | Ref to closure; args: list of values"""
        if isinstance(clo, Ref):
            inner = self.load_ref(clo)
            if isinstance(inner, (Agg, FnVal)):
                return self.call_closure_env(inner, clo, args)
        return self.call_closure_env(clo, None, args)

    def call_closure_env(self, clo, ref, args):
        if isinstance(clo, FnVal):
            return self.do_call(None, clo.name, args)
        if isinstance(clo, Agg) and clo.ty.startswith('{closure@'):
            f = self.prog.closures.get(clo.ty)
            if f is None:
                raise Unsupported("closure body " + clo.ty)
            p0 = f.params[0][1]
            if p0.startswith('&'):
                env = ref if ref is not None else self.new_ref(clo, 'clo')
            else:
                env = clo
            return self.call_function(f, [env] + list(args), {})
        raise Unsupported("call of %r" % (clo,))


def _arr_norm(t):
    return re.sub(r';\s*\w+\]', '; _]', t)


def _strip_generics(s):
    out, depth = [], 0
    i = 0
    while i < len(s):
        c = s[i]
        if c == '<':
            depth += 1
            # drop a preceding '::'
            if depth == 1 and len(out) >= 2 and out[-1] == ':' and out[-2] == ':':
                out.pop(); out.pop()
        elif c == '>' and not (i > 0 and s[i - 1] in '-='):
            depth -= 1
        elif depth == 0:
            out.append(c)
        i += 1
    return ''.join(out)


def _last_turbofish(c):
    """index of the '::<' that opens the trailing generic args of 'path::method::<...>' (or None)"""
    depth = 0
    i = len(c) - 1
    while i >= 0:
        ch = c[i]
        if ch == '>' and not (i > 0 and c[i - 1] in '-='):
            depth += 1
        elif ch == '<':
            depth -= 1
            if depth == 0:
                if i >= 2 and c[i - 2:i] == '::':
                    # make sure what precedes is an identifier (method name), not a type path segment like Vec::<T>::new
                    return i - 2
                return None
        i -= 1
    return None


def _unescape(s):
    return bytes(s, 'utf-8').decode('unicode_escape') if '\\' in s else s


def _unescape_bytes(body, is_str):
    out = bytearray()
    i = 0
    while i < len(body):
        c = body[i]
        if c == '\\':
            n = body[i + 1]
            if n == 'x':
                out.append(int(body[i + 2:i + 4], 16)); i += 4; continue
            if n == 'u':
                j = body.index('}', i)
                out += chr(int(body[i + 3:j], 16)).encode('utf-8'); i = j + 1; continue
            out.append({'n': 10, 'r': 13, 't': 9, '\\': 92, '0': 0, '"': 34, "'": 39}[n]); i += 2; continue
        out += c.encode('utf-8')
        i += 1
    return bytes(out)
