"""Models: core::fmt (Formatter, Arguments with the byte-template encoding of current nightly, Display/Debug
dispatch, to_string / format!).  Output bytes are produced exactly for strings, chars and concrete integers;
symbolic integers are rendered as a fixed placeholder (their digits are never inspected by the checked code)."""
import re
import z3
from .values import *
from .program import head, strip_lifetimes
from .models import model, as_slice, deref_val, usize


def new_formatter(I):
    return I.new_ref(Agg('Formatter', (VecV((), True),)), 'fmt')


def fmt_buf(I, fref):
    f = I.load_ref(fref)
    while isinstance(f, Ref):
        fref = f
        f = I.load_ref(fref)
    return fref, f


def fmt_append(I, fref, items):
    fref, f = fmt_buf(I, fref)
    if not (isinstance(f, Agg) and f.ty == 'Formatter'):
        raise Unsupported("not a Formatter: %r" % (f,))
    I.store_ref(fref, Agg('Formatter', (VecV(f.f[0].items + tuple(items), True),)))


def lit(s):
    return [mk('u8', b) for b in s.encode('utf-8')]


FMT_OK = Ok(UNIT)
FMT_ERR = Err(Agg('Error', ()))


def trait_fmt(I, trait, val, fref):
    """call <T as Display|Debug>::fmt for the runtime type of val; returns Result"""
    ref = val if isinstance(val, Ref) else I.new_ref(val, 'fmtarg')
    v = I.load_ref(ref)
    while isinstance(v, Ref):
        ref = v
        v = I.load_ref(ref)
    ty = v.ty if isinstance(v, (Agg, En)) else None
    if ty and (ty, 'fmt') in I.prog.methods:
        cands = [f for t, f in I.prog.methods[(ty, 'fmt')] if (t or '').split('::')[-1].startswith(trait)]
        if len(cands) == 1:
            return I.call_function(cands[0], [ref, fref], {})
    return std_fmt(I, trait, v, ref, fref)


def std_fmt(I, trait, v, ref, fref):
    if isinstance(v, Sc):
        if v.ty == 'char':
            from .models_coll import utf8_encode
            fmt_append(I, fref, utf8_encode(I, v))
        elif v.ty == 'bool':
            fmt_append(I, fref, lit('true') if (v.concrete and v.e) else lit('?bool'))
        elif v.concrete:
            from .mirparse import SIGNED
            fmt_append(I, fref, lit(str(signed_val(v.e, v.ty) if v.ty in SIGNED else v.e)))
        else:
            fmt_append(I, fref, lit('#'))
        return FMT_OK
    if isinstance(v, (VecV, SliceRef)):
        is_str = v.is_string if isinstance(v, VecV) else v.is_str
        if is_str:
            xs = I.seq_list(as_slice(I, ref))
            if trait == 'Debug':
                fmt_append(I, fref, lit('"') + xs + lit('"'))
            else:
                fmt_append(I, fref, xs)
            return FMT_OK
        xs = I.seq_list(as_slice(I, ref) if isinstance(v, VecV) else v)
        fmt_append(I, fref, lit('['))
        for x in xs:
            r = trait_fmt(I, 'Debug', x, fref)
            if r.var == 'Err':
                return r
            fmt_append(I, fref, lit(', '))
        fmt_append(I, fref, lit(']'))
        return FMT_OK
    if isinstance(v, En):
        if v.ty == 'Cow':
            return trait_fmt(I, trait, v.f[0], fref)
        fmt_append(I, fref, lit(v.var))
        for x in v.f:
            fmt_append(I, fref, lit('('))
            r = trait_fmt(I, 'Debug', x, fref)
            if r.var == 'Err':
                return r
            fmt_append(I, fref, lit(')'))
        return FMT_OK
    if isinstance(v, Agg) and v.ty == 'Arguments':
        return run_arguments(I, v, fref)        # format_args!(..) used as a Display / Debug value
    if isinstance(v, Agg):
        fmt_append(I, fref, lit(v.ty + '{'))
        for x in v.f:
            r = trait_fmt(I, 'Debug', x, fref)
            if r.var == 'Err':
                return r
            fmt_append(I, fref, lit(','))
        fmt_append(I, fref, lit('}'))
        return FMT_OK
    if isinstance(v, MapV):
        fmt_append(I, fref, lit('{'))
        for k, x in v.entries:
            for y in (k, x):
                r = trait_fmt(I, 'Debug', y, fref)
                if r.var == 'Err':
                    return r
                fmt_append(I, fref, lit(':'))
        fmt_append(I, fref, lit('}'))
        return FMT_OK
    if v is None or isinstance(v, OpaqueV):
        fmt_append(I, fref, lit('?'))
        return FMT_OK
    raise Unsupported("fmt of %r" % (v,))


@model(r'^core::fmt::rt::Argument::new_(display|debug|lower_hex|upper_hex)::<(.*)>$')
def m_argument_new(I, fr, callee, m, args):
    return Agg('FmtArg', (args[0], m.group(1)))


@model(r'^Arguments::new::<(\d+), (\d+)>$|^Arguments::from_str$|^Arguments::new_const::<.*>$|^Arguments::from_str_nonconst$')
def m_arguments_new(I, fr, callee, m, args):
    if 'from_str' in callee:
        s = I.seq_list(as_slice(I, args[0]))
        return Agg('Arguments', ('str', tuple(s), ()))
    tmpl = I.seq_list(as_slice(I, args[0]))
    if not all(b.concrete for b in tmpl):
        raise Unsupported("symbolic format template")
    argv = I.seq_list(as_slice(I, args[1]))
    return Agg('Arguments', ('tmpl', tuple(b.e for b in tmpl), tuple(argv)))


def run_arguments(I, a, fref):
    kind, tmpl, argv = a.f
    if kind == 'str':
        fmt_append(I, fref, list(tmpl))
        return FMT_OK
    i = 0
    nxt = 0
    while True:
        n = tmpl[i]
        i += 1
        if n == 0:
            return FMT_OK
        if n < 0x80:
            fmt_append(I, fref, [mk('u8', b) for b in tmpl[i:i + n]])
            i += n
        elif n == 0x80:
            ln = tmpl[i] | (tmpl[i + 1] << 8)
            i += 2
            fmt_append(I, fref, [mk('u8', b) for b in tmpl[i:i + ln]])
            i += ln
        else:
            if n & 1:
                i += 4
            if n & 2:
                i += 2
            if n & 4:
                i += 2
            if n & 8:
                nxt = tmpl[i] | (tmpl[i + 1] << 8)
                i += 2
            arg = argv[nxt]
            nxt += 1
            r = trait_fmt(I, 'Debug' if arg.f[1] == 'debug' else 'Display', arg.f[0], fref)
            if r.var == 'Err':
                return r


@model(r'^Formatter::(write_str|write_fmt|write_char|pad|debug_struct|debug_tuple|debug_list|debug_map|alternate)$|^<Formatter as (?:std::fmt::)?Write>::(write_str|write_fmt|write_char)$')
def m_formatter(I, fr, callee, m, args):
    op = m.group(1) or m.group(2)
    if op in ('write_str', 'pad'):
        fmt_append(I, args[0], I.seq_list(as_slice(I, args[1])))
        return FMT_OK
    if op == 'write_char':
        from .models_coll import utf8_encode
        fmt_append(I, args[0], utf8_encode(I, args[1]))
        return FMT_OK
    if op == 'write_fmt':
        return run_arguments(I, args[1], args[0])
    if op == 'alternate':
        return FALSE
    # builders
    name = I.seq_list(as_slice(I, args[1])) if len(args) > 1 else []
    fmt_append(I, args[0], name + lit('{'))
    return Agg('DebugBuilder', (args[0], TRUE))


@model(r'^Debug(Struct|Tuple|List|Map|Set)::<.*>::(field|finish|entry|entries|finish_non_exhaustive|key|value)(?:::<.*>)?$|^Debug(Struct|Tuple|List|Map|Set)::(field|finish|entry|finish_non_exhaustive)$')
def m_debug_builder(I, fr, callee, m, args):
    op = m.group(2) or m.group(4)
    bref = args[0]
    b = I.load_ref(bref)
    fref, okflag = b.f
    if op in ('finish', 'finish_non_exhaustive'):
        fmt_append(I, fref, lit('}'))
        return FMT_OK if okflag.e else FMT_ERR
    val = args[-1]
    if okflag.e:
        r = trait_fmt(I, 'Debug', val, fref)
        if r.var == 'Err':
            I.store_ref(bref, Agg('DebugBuilder', (fref, FALSE)))
        fmt_append(I, fref, lit(','))
    return bref


@model(r'^Formatter::debug_(struct|tuple)_field(\d)_finish$|^Formatter::debug_(struct|tuple)_fields_finish$')
def m_debug_fields_finish(I, fr, callee, m, args):
    fref = args[0]
    fmt_append(I, fref, I.seq_list(as_slice(I, args[1])) + lit('{'))
    if m.group(2):
        rest = args[2:]
        vals = rest[1::2] if (m.group(1) == 'struct') else rest
    else:
        # (name, names: &[&str], values: &[&dyn Debug])
        vals = I.seq_list(as_slice(I, args[-1]))
    for v in vals:
        r = trait_fmt(I, 'Debug', v, fref)
        if r.var == 'Err':
            return r
        fmt_append(I, fref, lit(','))
    fmt_append(I, fref, lit('}'))
    return FMT_OK


def to_string_of(I, val, trait='Display'):
    fref = new_formatter(I)
    r = trait_fmt(I, trait, val, fref)
    if r.var == 'Err':
        raise PathEnd('panic', 'a Display implementation returned an error unexpectedly')
    return I.load_ref(fref).f[0]


@model(r'^<(.*) as ToString>::to_string$')
def m_to_string(I, fr, callee, m, args):
    return to_string_of(I, args[0])


@model(r'^(?:std::fmt::|alloc::fmt::)?format$|^std::fmt::format$|^alloc::fmt::format::format_inner$')
def m_format(I, fr, callee, m, args):
    fref = new_formatter(I)
    r = run_arguments(I, args[0], fref)
    if r.var == 'Err':
        raise PathEnd('panic', 'a formatting trait implementation returned an error')
    return I.load_ref(fref).f[0]


@model(r'^(?:std::hint::|core::hint::)?must_use::<.*>$')
def m_must_use(I, fr, callee, m, args):
    return args[0]


@model(r'^<(u8|u16|u32|u64|usize|i32|i64|bool|char|str|&str|String|&String|&u8|&u16|&u32|&usize|&bool) as (Display|Debug|LowerHex|UpperHex)>::fmt$')
def m_std_display(I, fr, callee, m, args):
    return trait_fmt(I, 'Debug' if m.group(2) == 'Debug' else 'Display', args[0], args[1])


@model(r'^<&(.*) as (Display|Debug)>::fmt$|^<(Vec<.*>|Option<.*>|Cow<.*>|\[.*\]|BTreeMap<.*>|HashMap<.*>|std::net::Ipv[46]Addr|Ipv[46]Addr) as (Debug|Display)>::fmt$')
def m_ref_display(I, fr, callee, m, args):
    return trait_fmt(I, m.group(2) or m.group(4), args[0], args[1])


@model(r'^(?:bitflags::parser::)?to_writer::<.*>$')
def m_bitflags_to_writer(I, fr, callee, m, args):
    fmt_append(I, args[1], lit('flags'))
    return FMT_OK
