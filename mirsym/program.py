"""Program = parsed MIR of one crate + the source facts the dump omits (impl headers, field and variant
order, macro expansions).  Regenerated from the working tree on every run."""
import os, re, subprocess, shutil
from . import mirparse as P
from .values import Unsupported

_LIFETIME = re.compile(r"'\w+\b,?\s*")


def strip_lifetimes(t):
    t = re.sub(r"::<'\w+(?:,\s*'\w+)*>", "", t)
    t = re.sub(r"<'\w+(?:,\s*'\w+)*>", "", t)
    t = re.sub(r"'\w+,\s*", "", t)
    t = re.sub(r",\s*'\w+", "", t)
    t = re.sub(r"&'\w+\s+", "&", t)
    t = re.sub(r"'\w+\s*", "", t)
    t = t.replace("::<>", "").replace("<>", "")
    return t.strip()


def split_generic(t):
    """'A::B<X, Y>' -> ('A::B', ['X','Y'])"""
    t = t.strip()
    k = t.find('<')
    if k < 0 or not t.endswith('>'):
        return t, []
    return t[:k].rstrip(':'), P.split_top(t[k + 1:-1])


def head(t):
    """normalised type head: last path segment without generics; primitives/arrays/slices kept whole"""
    t = strip_lifetimes(t).strip()
    while t.startswith('&'):
        t = t[1:].lstrip()
        if t.startswith('mut '):
            t = t[4:].lstrip()
    if t.startswith(('[', '(', '{', 'fn(', 'dyn ', '*')):
        return t
    base, _ = split_generic(t)
    base = base.rstrip(':')
    return base.rsplit('::', 1)[-1]


class ImplInfo:
    def __init__(self, span, self_ty, trait, in_macro, text):
        self.span = span
        self.self_ty = self_ty      # text, may be '$t'
        self.trait = trait          # text or None
        self.in_macro = in_macro
        self.text = text


class Program:
    def __init__(self, mir_text, src_root, crate_dir, extra_crates=()):
        self.src_root = src_root
        self.crate_dir = crate_dir
        self.extra_crates = list(extra_crates)
        self.fns, self.consts = P.parse_mir(mir_text)
        self._src = {}
        self.enums = {}        # head -> [(variant, discr)]
        self.structs = {}      # head -> [field names]
        self.methods = {}      # (self_head, method) -> [(trait_text|None, Function)]
        self.free = {}         # last segment -> [Function]
        self.closures = {}     # closure type text -> Function
        self.fn_generics = {}  # id(Function) -> [generic names]
        self.impl_of = {}      # id(Function) -> ImplInfo
        self._scan_sources()
        self._index()

    # ------------------------------------------------------------- sources
    def src(self, rel):
        if rel not in self._src:
            p = os.path.join(self.src_root, rel)
            self._src[rel] = open(p).read().split('\n') if os.path.exists(p) else None
        return self._src[rel]

    def _scan_sources(self):
        for cd in [self.crate_dir] + list(getattr(self, 'extra_crates', [])):
            root = os.path.join(self.src_root, cd, 'src')
            for dp, dn, fn in os.walk(root):
                for f in fn:
                    if f.endswith('.rs'):
                        self._scan_file(open(os.path.join(dp, f)).read())
        # std enums / structs
        self.enums.update({
            'Option': [('None', 0), ('Some', 1)],
            'Result': [('Ok', 0), ('Err', 1)],
            'ControlFlow': [('Continue', 0), ('Break', 1)],
            'Cow': [('Borrowed', 0), ('Owned', 1)],
            'Entry': [('Occupied', 0), ('Vacant', 1)],
            'Ordering': [('Less', -1), ('Equal', 0), ('Greater', 1)],
            'SeekFrom': [('Start', 0), ('End', 1), ('Current', 2)],
            'IpAddr': [('V4', 0), ('V6', 1)],
        })
        self.structs.update({
            'Range': ['start', 'end'], 'RangeFrom': ['start'], 'RangeTo': ['end'],
            'RangeInclusive': ['start', 'end', 'exhausted'],
        })

    def _scan_file(self, text):
        text_nc = re.sub(r'//[^\n]*', '', text)
        for m in re.finditer(r'\benum\s+(\w+)\s*(?:<[^>{]*>)?\s*\{', text_nc):
            body = self._brace_body(text_nc, m.end() - 1)
            if '$(' in body or '$i' in body:
                continue
            vs, nxt = [], 0
            for part in P.split_top(body):
                part = re.sub(r'#\[[^\]]*\]', '', part).strip()
                if not part:
                    continue
                mm = re.match(r'^(\w+)\s*(?:\(.*\)|\{.*\})?\s*(?:=\s*(-?\d+))?$', part, re.S)
                if not mm:
                    continue
                if mm.group(2) is not None:
                    nxt = int(mm.group(2))
                vs.append((mm.group(1), nxt))
                nxt += 1
            self.enums[m.group(1)] = vs
        for m in re.finditer(r'\bstruct\s+(\w+)\s*(?:<[^>{(;]*>)?\s*(\{|\()', text_nc):
            if m.group(2) == '(':
                continue
            body = self._brace_body(text_nc, m.end() - 1)
            if '$' in body:
                continue
            fs = []
            for part in P.split_top(body):
                part = re.sub(r'#\[[^\]]*\]', '', part).strip()
                mm = re.match(r'^(?:pub(?:\([^)]*\))?\s+)?(\w+)\s*:', part)
                if mm:
                    fs.append(mm.group(1))
            self.structs[m.group(1)] = fs
        # rdata_enum! { A, AAAA, NS<'a>, ... }
        m = re.search(r'rdata_enum!\s*\{(.*?)\}', text_nc, re.S)
        if m and 'macro_rules' not in text_nc[max(0, m.start() - 40):m.start()]:
            names = [re.sub(r"<.*", "", x).strip() for x in m.group(1).split(',') if x.strip()]
            if names and '$' not in m.group(1):
                self.enums['RData'] = [(n, i) for i, n in enumerate(names)] + [('NULL', len(names)), ('Empty', len(names) + 1)]
                self.enums['TYPE'] = [(n, i) for i, n in enumerate(names)] + [('NULL', len(names)), ('Unknown', len(names) + 1)]
                self.rdata_variants = names

    @staticmethod
    def _brace_body(text, i):
        depth = 0
        j = i
        while j < len(text):
            if text[j] == '{':
                depth += 1
            elif text[j] == '}':
                depth -= 1
                if depth == 0:
                    return text[i + 1:j]
            j += 1
        return text[i + 1:]

    # ------------------------------------------------------------- impl table
    _re_impl_span = re.compile(r'<impl at ([^:>]+):(\d+):(\d+): (\d+):(\d+)>')

    def _impl_info(self, span_m):
        rel, l1, c1, l2, c2 = span_m.group(1), int(span_m.group(2)), int(span_m.group(3)), int(span_m.group(4)), int(span_m.group(5))
        lines = self.src(rel)
        if lines is None:
            return None
        in_macro = rel.endswith('macros.rs')
        if l1 == l2:
            text = lines[l1 - 1][c1 - 1:c2 - 1]
        else:
            text = ' '.join([lines[l1 - 1][c1 - 1:]] + lines[l1:l2 - 1] + [lines[l2 - 1][:c2 - 1]])
        text = text.strip()
        if text.startswith('impl'):
            t = re.sub(r'^impl\s*(<[^>]*>)?\s*', '', text)
            t = t.split(' where ')[0].strip()
            if ' for ' in t:
                tr, _, st = t.partition(' for ')
                return ImplInfo(span_m.group(0), st.strip(), tr.strip(), in_macro, text)
            return ImplInfo(span_m.group(0), t, None, in_macro, text)
        # a derive: text is the trait name; Self is the next struct/enum after the attribute
        self_ty = '$derive'
        for k in range(l1 - 1, min(len(lines), l1 + 12)):
            mm = re.search(r'\b(?:struct|enum)\s+(\$?\w+)', lines[k])
            if mm:
                self_ty = mm.group(1)
                break
        return ImplInfo(span_m.group(0), self_ty, text, in_macro, text)

    def _self_from_sig(self, f, method):
        if f.debug.get('self') == '_1' and f.params:
            return head(f.params[0][1])
        r = strip_lifetimes(f.ret)
        b, args = split_generic(r)
        if head(b) in ('Result', 'Option') and args:
            return head(args[0])
        return head(r)

    def _index(self):
        for name, fl in self.fns.items():
            for f in fl:
                m = self._re_impl_span.search(name)
                if m and '{closure' not in name[m.end():]:
                    rest = name[m.end():]
                    method = rest.lstrip(':')
                    info = self._impl_info(m)
                    if info is None:
                        continue
                    self_ty = info.self_ty
                    if self_ty.startswith('$'):
                        sh = self._self_from_sig(f, method)
                    else:
                        sh = head(self_ty)
                    trait = strip_lifetimes(info.trait) if info.trait else None
                    self.impl_of[id(f)] = info
                    self.methods.setdefault((sh, method), []).append((trait, f))
                elif '{closure' in name:
                    if f.params:
                        ct = f.params[0][1]
                        ct = re.sub(r'^&(mut )?', '', ct).strip()
                        self.closures[ct] = f
                else:
                    self.free.setdefault(name.rsplit('::', 1)[-1], []).append(f)

    # ------------------------------------------------------------- lookups
    def variant_index(self, ety, var):
        for i, (n, d) in enumerate(self.enums.get(ety, ())):
            if n == var:
                return i
        raise Unsupported("unknown variant %s::%s" % (ety, var))

    def discr_of(self, ety, var):
        for n, d in self.enums.get(ety, ()):
            if n == var:
                return d
        raise Unsupported("unknown enum variant %s::%s" % (ety, var))

    def variant_by_discr(self, ety, d):
        for n, dv in self.enums.get(ety, ()):
            if dv == d:
                return n
        return None

    def field_index(self, sty, fname):
        fs = self.structs.get(sty)
        if fs is None:
            raise Unsupported("unknown struct " + sty)
        return fs.index(fname)

    def generics_of(self, f):
        """generic type parameter names of a function, from its source definition (method-level only)"""
        k = id(f)
        if k in self.fn_generics:
            return self.fn_generics[k]
        names = []
        m = self._re_impl_span.search(f.name)
        method = f.name.rsplit('::', 1)[-1]
        srcs = []
        if m:
            lines = self.src(m.group(1))
            if lines:
                srcs.append('\n'.join(lines[int(m.group(2)) - 1:]))
        else:
            for rel, lines in list(self._src.items()):
                if lines:
                    srcs.append('\n'.join(lines))
        for text in srcs:
            mm = re.search(r'\bfn\s+' + re.escape(method) + r'\s*<([^()]*?)>\s*\(', text)
            if mm:
                for part in P.split_top(mm.group(1)):
                    part = part.strip()
                    if part.startswith("'") or part.startswith('const '):
                        continue
                    names.append(part.split(':')[0].strip())
                break
        self.fn_generics[k] = names
        return names


def dump_mir(repo, crate, features=None, scratch=None):
    """copy the working tree to scratch and dump the crate's MIR; returns (mir_text, src_root)"""
    root = os.path.join(scratch, 'tree')
    os.makedirs(root, exist_ok=True)
    for item in ('Cargo.toml', 'Cargo.lock', 'simple-dns', 'simple-mdns'):
        s = os.path.join(repo, item)
        d = os.path.join(root, item)
        if os.path.isdir(s):
            shutil.copytree(s, d, ignore=shutil.ignore_patterns('target'))
        else:
            shutil.copy(s, d)
    cmd = ['cargo', '+nightly', 'rustc', '--offline', '-p', crate, '--lib']
    if features:
        cmd += ['--features', features]
    cmd += ['--', '-Zunpretty=mir', '-C', 'debug-assertions=off', '-C', 'overflow-checks=on']
    env = dict(os.environ)
    env['CARGO_NET_OFFLINE'] = 'true'
    env['CARGO_TARGET_DIR'] = os.path.join(scratch, 'target')
    env.pop('RUSTFLAGS', None)
    p = subprocess.run(cmd, cwd=root, env=env, capture_output=True, text=True)
    if p.returncode != 0 or not p.stdout.strip():
        raise RuntimeError("MIR dump failed: " + p.stderr[-2000:])
    shutil.rmtree(os.path.join(scratch, 'target'), ignore_errors=True)
    return p.stdout, root
