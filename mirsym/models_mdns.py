"""Models for simple-mdns' environment: radix_trie 0.2.1 (third-party crate) and std::time.

Trie<Vec<u8>, V> is an association list (MapV kind 'Trie').  `subtrie(k)` follows the crate's semantics exactly:
it is Some only when a trie NODE exists at k, i.e. k is a stored key or a byte-aligned branching point of two
stored keys (nibble tries branch per 4 bits); it then ranges over every stored key that has k as a prefix.
Instant::now() returns a fresh symbol >= every earlier instant (monotone clock), in nanoseconds."""
import z3
from .values import *
from .models import model, as_slice, deref_val, usize
from .models_coll import map_find, eq_dispatch_deep


def key_bytes(I, k):
    return I.seq_list(as_slice(I, k) if not isinstance(k, VecV) else k)


def is_prefix(I, pre, full):
    if len(pre) > len(full):
        return z3.BoolVal(False)
    return z3.And([z3.BoolVal(True)] + [a.z() == b.z() for a, b in zip(pre, full)])


@model(r'^radix_trie::trie::<impl Trie<.*>>::(new|get|get_mut|insert|subtrie|remove|len|is_empty)(?:::<.*>)?$|^Trie::<.*>::(new|get|get_mut|insert|subtrie|remove|len|is_empty)(?:::<.*>)?$')
def m_trie(I, fr, callee, m, args):
    op = m.group(1) or m.group(2)
    if op == 'new':
        return MapV('Trie')
    ref = args[0]
    t = I.load_ref(ref)
    if op in ('get', 'get_mut'):
        i = map_find(I, t, deref_val(I, args[1]))
        if i is None:
            return NONE
        return Some(Ref(ref.cell, ref.path + (('ent', i),)))
    if op == 'insert':
        i = map_find(I, t, args[1])
        if i is not None:
            old = t.entries[i][1]
            I.store_ref(ref, MapV('Trie', t.entries[:i] + ((t.entries[i][0], args[2]),) + t.entries[i + 1:]))
            return Some(old)
        I.store_ref(ref, MapV('Trie', t.entries + ((args[1], args[2]),)))
        return NONE
    if op == 'remove':
        i = map_find(I, t, deref_val(I, args[1]))
        if i is None:
            return NONE
        I.store_ref(ref, MapV('Trie', t.entries[:i] + t.entries[i + 1:]))
        return Some(t.entries[i][1])
    if op == 'len':
        return usize(len(t.entries))
    if op == 'is_empty':
        return TRUE if not t.entries else FALSE
    if op == 'subtrie':
        k = key_bytes(I, deref_val(I, args[1]))
        keys = [key_bytes(I, e[0]) for e in t.entries]
        member = []
        exact = False
        for i, kb in enumerate(keys):
            if I.ctx.branch(is_prefix(I, k, kb)):
                member.append(i)
                if len(kb) == len(k):
                    exact = True
        node = exact
        if not node and not k:
            node = True                       # the root node always exists
        if not node:
            # byte-aligned branching point: two members whose next byte differs in the high nibble
            conds = []
            for a in member:
                for b in member:
                    if a < b:
                        conds.append(z3.Extract(7, 4, keys[a][len(k)].z()) != z3.Extract(7, 4, keys[b][len(k)].z()))
            if conds and I.ctx.branch(z3.Or(conds)):
                node = True
        if not node:
            return NONE
        return Some(Agg('SubTrie', (ref, tuple(member))))
    raise Unsupported(op)


@model(r'^<&(Sub)?Trie<.*> as TrieCommon<.*>>::(iter|len|is_empty|keys|values)$|^<(Sub)?Trie<.*> as TrieCommon<.*>>::(iter|len|is_empty|keys|values)$')
def m_trie_common(I, fr, callee, m, args):
    op = m.group(2) or m.group(4)
    v = args[0]
    while isinstance(v, Ref):
        inner = I.load_ref(v)
        if isinstance(inner, (MapV,)) or (isinstance(inner, Agg) and inner.ty == 'SubTrie'):
            break
        v = inner
    if isinstance(v, Ref):
        inner = I.load_ref(v)
        if isinstance(inner, MapV):
            ref, idx = v, list(range(len(inner.entries)))
        else:
            ref, idx = inner.f[0], list(inner.f[1])
    elif isinstance(v, Agg) and v.ty == 'SubTrie':
        ref, idx = v.f[0], list(v.f[1])
    else:
        raise Unsupported("TrieCommon on %r" % (v,))
    if op == 'len':
        return usize(len(idx))
    if op == 'is_empty':
        return TRUE if not idx else FALSE
    # a radix trie iterates in key order (a key before the keys it is a prefix of): sort the entries, forking on the comparisons
    ents = I.load_ref(ref).entries
    kbs = {i: key_bytes(I, ents[i][0]) for i in idx}

    def lex_lt(a, b):
        alts = []
        eq_prefix = []
        for x, y in zip(a, b):
            alts.append(z3.And(eq_prefix + [z3.ULT(x.z(), y.z())]))
            eq_prefix = eq_prefix + [x.z() == y.z()]
        if len(a) < len(b):
            alts.append(z3.And(eq_prefix + [z3.BoolVal(True)]))
        return z3.Or(alts + [z3.BoolVal(False)])
    order = []
    for i in idx:
        pos = len(order)
        while pos > 0 and I.ctx.branch(lex_lt(kbs[i], kbs[order[pos - 1]])):
            pos -= 1
        order.insert(pos, i)
    idx = order
    if op == 'iter':
        return IterV('list', items=tuple(Agg('tuple', (Ref(ref.cell, ref.path + (('entk', i),)),
                                                         Ref(ref.cell, ref.path + (('ent', i),)))) for i in idx), i=0)
    if op == 'values':
        return IterV('list', items=tuple(Ref(ref.cell, ref.path + (('ent', i),)) for i in idx), i=0)
    if op == 'keys':
        return IterV('list', items=tuple(Ref(ref.cell, ref.path + (('entk', i),)) for i in idx), i=0)


# ------------------------------------------------------------------ std::time
NANOS = 1000000000
T_MAX = 1 << 61


@model(r'^Instant::now$|^std::time::Instant::now$')
def m_instant_now(I, fr, callee, m, args):
    clock = getattr(I, 'clock', None)
    if clock is None:
        clock = I.clock = []
    t = sym(I.ctx.fresh_name('now'), 'u64')
    I.ctx.assume(z3.ULT(t.z(), T_MAX))
    if clock:
        I.ctx.assume(z3.UGE(t.z(), clock[-1].z()))
    clock.append(t)
    return Agg('Instant', (t,))


@model(r'^Duration::(from_secs|from_millis|from_nanos|as_secs)$')
def m_duration(I, fr, callee, m, args):
    op = m.group(1)
    if op == 'as_secs':
        return I.binop('Div', deref_val(I, args[0]).f[0], mk('u64', NANOS))
    mult = {'from_secs': NANOS, 'from_millis': 1000000, 'from_nanos': 1}[op]
    v = args[0]
    # u64 seconds * 1e9 cannot overflow for the u32 TTLs the code passes; larger values are outside the model
    I.ctx.assume(z3.ULT(v.z(), 1 << 33)) if not v.concrete else None
    return Agg('Duration', (I.binop('Mul', v, mk('u64', mult)),))


@model(r'^<Instant as (Add<Duration>|Sub<Duration>|Sub|PartialOrd|Ord|PartialEq)>::(\w+)$')
def m_instant_ops(I, fr, callee, m, args):
    op = m.group(2)
    a = deref_val(I, args[0]).f[0]
    b = deref_val(I, args[1]).f[0]
    if op == 'add':
        return Agg('Instant', (I.binop('Add', a, b),))
    if op == 'sub':
        if m.group(1) == 'Sub<Duration>':
            return Agg('Instant', (I.binop('Sub', a, b),))
        # Instant - Instant saturates to zero
        if I.ctx.branch(I.binop('Lt', a, b)):
            return Agg('Duration', (mk('u64', 0),))
        return Agg('Duration', (I.binop('Sub', a, b),))
    if op == 'cmp':
        return I.binop('Cmp', a, b)
    if op == 'partial_cmp':
        return Some(I.binop('Cmp', a, b))
    return I.binop({'eq': 'Eq', 'ne': 'Ne', 'lt': 'Lt', 'le': 'Le', 'gt': 'Gt', 'ge': 'Ge'}[op], a, b)


@model(r'^<Instant as Hash>::hash::<.*>$')
def m_instant_hash(I, fr, callee, m, args):
    from .models_io import hasher_feed
    hasher_feed(I, args[1], [('int', 'u64', deref_val(I, args[0]).f[0])])
    return UNIT
