"""Value domain of the MIR symbolic executor.

Scalars are `Sc`: python int (concrete) or z3 expression (BitVecRef; BoolRef for bool).
Everything else is an immutable-by-convention python object; updates are functional.
"""
import z3
from .mirparse import INT_W, SIGNED


class Unsupported(Exception):
    pass


class PathEnd(Exception):
    """normal end of a path other than return: panic | bound | infeasible | unreachable | abort"""

    def __init__(self, kind, msg=''):
        Exception.__init__(self, kind + ': ' + msg)
        self.kind = kind
        self.msg = msg


def width(ty):
    if ty == 'bool':
        return 1
    return INT_W[ty]


class Sc:
    __slots__ = ('e', 'ty')

    def __init__(self, e, ty):
        self.e = e
        self.ty = ty

    @property
    def concrete(self):
        return isinstance(self.e, int)

    def z(self):
        """as z3 expression (BitVec, or Bool for ty == bool)"""
        if isinstance(self.e, int):
            if self.ty == 'bool':
                return z3.BoolVal(bool(self.e))
            return z3.BitVecVal(self.e, INT_W[self.ty])
        return self.e

    def __repr__(self):
        return 'Sc(%s:%s)' % (self.e, self.ty)


def mk(ty, v):
    if ty == 'bool':
        return Sc(1 if v else 0, 'bool')
    w = INT_W[ty]
    return Sc(v & ((1 << w) - 1), ty)


TRUE = Sc(1, 'bool')
FALSE = Sc(0, 'bool')
UNIT = None  # set below


def signed_val(v, ty):
    w = INT_W[ty]
    return v - (1 << w) if v >> (w - 1) else v


def simp(e):
    """simplify a z3 expr; return python int when it is a literal"""
    e = z3.simplify(e)
    if z3.is_bv_value(e):
        return e.as_long()
    if z3.is_true(e):
        return 1
    if z3.is_false(e):
        return 0
    return e


def sc_from(e, ty):
    if isinstance(e, int):
        return mk(ty, e)
    return Sc(simp(e), ty)


def sym(name, ty):
    if ty == 'bool':
        return Sc(z3.Bool(name), 'bool')
    return Sc(z3.BitVec(name, INT_W[ty]), ty)


def zbool(x):
    """Sc(bool) | python bool | z3 Bool -> z3 Bool"""
    if isinstance(x, Sc):
        return x.z()
    if isinstance(x, bool):
        return z3.BoolVal(x)
    return x


class Agg:
    """struct / tuple / array / closure environment"""
    __slots__ = ('ty', 'f')

    def __init__(self, ty, f):
        self.ty = ty
        self.f = tuple(f)

    def with_field(self, i, v):
        l = list(self.f)
        while len(l) <= i:
            l.append(None)
        l[i] = v
        return Agg(self.ty, l)

    def __repr__(self):
        return '%s%r' % (self.ty, self.f)


UNIT = Agg('()', ())


class En:
    """enum value with a concrete variant"""
    __slots__ = ('ty', 'var', 'f')

    def __init__(self, ty, var, f=()):
        self.ty = ty      # normalised type head, e.g. 'Option', 'Result', 'CLASS'
        self.var = var    # variant name
        self.f = tuple(f)

    def with_field(self, i, v):
        l = list(self.f)
        while len(l) <= i:
            l.append(None)
        l[i] = v
        return En(self.ty, self.var, l)

    def __repr__(self):
        return '%s::%s%r' % (self.ty, self.var, self.f)


def Some(v):
    return En('Option', 'Some', (v,))


NONE = En('Option', 'None')


def Ok(v):
    return En('Result', 'Ok', (v,))


def Err(v):
    return En('Result', 'Err', (v,))


class Cell:
    __slots__ = ('v', 'name')

    def __init__(self, v=None, name=''):
        self.v = v
        self.name = name


class Ref:
    """reference / pointer to a place: a cell plus a path of steps inside its value.
    steps: int (field index) | ('i', Sc) element index | ('box',)"""
    __slots__ = ('cell', 'path', 'mut')

    def __init__(self, cell, path=(), mut=False):
        self.cell = cell
        self.path = tuple(path)
        self.mut = mut

    def __repr__(self):
        return 'Ref(%s%r)' % (self.cell.name, self.path)


class SliceRef:
    """&[T] / &mut [T] / &str: view (start, len) into a container (VecV or array Agg) reachable via base Ref"""
    __slots__ = ('base', 'start', 'len', 'is_str')

    def __init__(self, base, start, ln, is_str=False):
        self.base = base      # Ref to the container value
        self.start = start    # Sc usize
        self.len = ln         # Sc usize
        self.is_str = is_str

    def __repr__(self):
        return 'Slice(%r,%s,%s)' % (self.base, self.start.e, self.len.e)


class VecV:
    """Vec<T> / String (elem u8): concrete element count"""
    __slots__ = ('items', 'is_string')

    def __init__(self, items=(), is_string=False):
        self.items = tuple(items)
        self.is_string = is_string

    def __repr__(self):
        return 'Vec%r' % (self.items,)


class BoxV:
    __slots__ = ('v',)

    def __init__(self, v):
        self.v = v


class FnVal:
    """function item / function pointer"""
    __slots__ = ('name',)

    def __init__(self, name):
        self.name = name

    def __repr__(self):
        return 'Fn(%s)' % self.name


class IterV:
    """iterator state (functional); kind-specific fields in d"""
    __slots__ = ('kind', 'd')

    def __init__(self, kind, **d):
        self.kind = kind
        self.d = d

    def repl(self, **kw):
        d = dict(self.d)
        d.update(kw)
        return IterV(self.kind, **d)

    def __repr__(self):
        return 'Iter(%s,%r)' % (self.kind, self.d)


class MapV:
    """HashMap / BTreeMap / HashSet (values UNIT): association list in insertion order (BTreeMap: kept sorted
    when keys are concrete-comparable)"""
    __slots__ = ('kind', 'entries')

    def __init__(self, kind, entries=()):
        self.kind = kind
        self.entries = tuple(entries)


class CursorV:
    """std::io::Cursor<Vec<u8>> : inner VecV + position"""
    __slots__ = ('inner', 'pos')

    def __init__(self, inner, pos):
        self.inner = inner
        self.pos = pos        # Sc u64


class HasherV:
    """recording hasher: the stream fed to Hasher::write*"""
    __slots__ = ('stream',)

    def __init__(self, stream=()):
        self.stream = tuple(stream)


class OpaqueV:
    """values whose content the checked code never inspects (fmt::Arguments, Formatter pieces, io::Error...)"""
    __slots__ = ('what', 'd')

    def __init__(self, what, **d):
        self.what = what
        self.d = d

    def __repr__(self):
        return 'Opaque(%s)' % self.what


class ArrBuf:
    """byte buffer of symbolic length: z3 Array(BitVec64 -> BitVec8) + length (inductive mode)"""
    __slots__ = ('arr', 'len')

    def __init__(self, arr, ln):
        self.arr = arr
        self.len = ln


class LoopBack(Exception):
    """raised when execution re-enters the designated loop head (inductive mode)"""

    def __init__(self, frame):
        Exception.__init__(self, 'loop back-edge')
        self.frame = frame
