"""Models: std::io::{Write, Seek, Cursor}, Hash/Hasher, fmt (minimal), net addresses."""
import re
import z3
from .values import *
from .mirparse import INT_W
from .program import head, strip_lifetimes
from .models import model, as_slice, deref_val, usize, ult, ule


def io_err(kind):
    return Err(OpaqueV('io::Error', kind=kind))


def u64(n):
    return mk('u64', n)


def write_into(I, out_ref, data):
    """write_all semantics on the runtime value behind `out_ref`; returns Result<(), io::Error>"""
    tgt = I.load_ref(out_ref)
    xs = I.seq_list(as_slice(I, data))
    I.events.append(('write', len(xs)))
    if isinstance(tgt, Ref):                       # &mut W where W: Write  (impl Write for &mut W)
        return write_into(I, tgt, data)
    if isinstance(tgt, VecV):
        I.store_ref(out_ref, VecV(tgt.items + tuple(xs), tgt.is_string))
        return Ok(UNIT)
    if isinstance(tgt, CursorV):
        inner = tgt.inner
        pos = I.ctx.concretize(tgt.pos, limit=70000)
        if isinstance(inner, Ref):
            inner_v = I.load_ref(inner)
        else:
            inner_v = inner
        if isinstance(inner_v, VecV):
            items = list(inner_v.items)
            if pos > len(items):
                items += [mk('u8', 0)] * (pos - len(items))
            items[pos:pos + len(xs)] = xs
            nv = VecV(items)
            if isinstance(inner, Ref):
                I.store_ref(inner, nv)
                I.store_ref(out_ref, CursorV(inner, u64(pos + len(xs))))
            else:
                I.store_ref(out_ref, CursorV(nv, u64(pos + len(xs))))
            return Ok(UNIT)
        if isinstance(inner_v, SliceRef):          # Cursor<&mut [u8]>: fixed capacity
            cap = I.ctx.concretize(inner_v.len, limit=70000)
            st = I.ctx.concretize(inner_v.start, limit=70000)
            p = min(pos, cap)
            amt = min(len(xs), cap - p)
            c = I.load_ref(inner_v.base)
            items = list(I.container_items(c))
            items[st + p:st + p + amt] = xs[:amt]
            I.store_ref(inner_v.base, I.with_items(c, items))
            I.store_ref(out_ref, CursorV(inner, u64(pos + amt)))
            if amt < len(xs):
                return io_err('WriteZero')
            return Ok(UNIT)
        raise Unsupported("Cursor over %r" % (inner_v,))
    if isinstance(tgt, SliceRef):                  # impl Write for &mut [u8]
        cap = I.ctx.concretize(tgt.len, limit=70000)
        st = I.ctx.concretize(tgt.start, limit=70000)
        amt = min(len(xs), cap)
        c = I.load_ref(tgt.base)
        items = list(I.container_items(c))
        items[st:st + amt] = xs[:amt]
        I.store_ref(tgt.base, I.with_items(c, items))
        I.store_ref(out_ref, SliceRef(tgt.base, usize(st + amt), usize(cap - amt)))
        if amt < len(xs):
            return io_err('WriteZero')
        return Ok(UNIT)
    if isinstance(tgt, Agg) and tgt.ty == 'FailingWriter':
        # environment stub: a writer that fails after `budget` bytes (spec-provided)
        budget = tgt.f[0].e
        if len(xs) > budget:
            I.store_ref(out_ref, Agg('FailingWriter', (usize(0), tgt.f[1])))
            return io_err('Other')
        I.store_ref(out_ref, Agg('FailingWriter', (usize(budget - len(xs)), tgt.f[1])))
        return Ok(UNIT)
    if isinstance(tgt, Agg) and (tgt.ty, 'write') in I.prog.methods:
        # a crate type implementing io::Write: std's default write_all loop over the type's own `write`
        f = [f_ for t_, f_ in I.prog.methods[(tgt.ty, 'write')] if (t_ or '').split('::')[-1].startswith('Write')][0]
        s = as_slice(I, data)
        done = 0
        n = len(xs)
        guard = 0
        while done < n:
            guard += 1
            if guard > 64:
                raise PathEnd('bound', 'write_all loop')
            part = SliceRef(s.base, I.binop('Add', s.start, usize(done)), usize(n - done), s.is_str)
            r = I.call_function(f, [out_ref, part], {})
            if r.var == 'Err':
                return r
            k = I.ctx.concretize(r.f[0], limit=70000)
            if k == 0:
                return io_err('WriteZero')
            done += k
        return Ok(UNIT)
    raise Unsupported("io::Write on %r" % (tgt,))


def write_some(I, out_ref, data):
    """Write::write: number of bytes accepted (all for growable writers, what fits for fixed ones)"""
    tgt = I.load_ref(out_ref)
    if isinstance(tgt, Ref):
        return write_some(I, tgt, data)
    xs = I.seq_list(as_slice(I, data))
    if isinstance(tgt, SliceRef):
        cap = I.ctx.concretize(tgt.len, limit=70000)
        amt = min(len(xs), cap)
        s = as_slice(I, data)
        write_into(I, out_ref, SliceRef(s.base, s.start, usize(amt), s.is_str))
        return Ok(usize(amt))
    if isinstance(tgt, CursorV):
        inner = I.load_ref(tgt.inner) if isinstance(tgt.inner, Ref) else tgt.inner
        if isinstance(inner, SliceRef):
            cap = I.ctx.concretize(inner.len, limit=70000)
            pos = min(I.ctx.concretize(tgt.pos, limit=70000), cap)
            amt = min(len(xs), cap - pos)
            s = as_slice(I, data)
            write_into(I, out_ref, SliceRef(s.base, s.start, usize(amt), s.is_str))
            return Ok(usize(amt))
    r = write_into(I, out_ref, data)
    if r.var == 'Err':
        return r
    return Ok(usize(len(xs)))


@model(r'^<(.*) as (?:std::io::)?Write>::write$')
def m_write(I, fr, callee, m, args):
    tgt = I.load_ref(args[0])
    if isinstance(tgt, Agg) and (tgt.ty, 'write') in I.prog.methods:
        return NotImplemented
    return write_some(I, args[0], args[1])


@model(r'^<(.*) as (?:std::io::)?Write>::write_all$')
def m_write_all(I, fr, callee, m, args):
    return write_into(I, args[0], args[1])


@model(r'^<(.*) as (?:std::io::)?Write>::flush$')
def m_flush(I, fr, callee, m, args):
    return Ok(UNIT)


def cursor_of(I, ref):
    v = I.load_ref(ref)
    while isinstance(v, Ref):
        ref = v
        v = I.load_ref(ref)
    if not isinstance(v, CursorV):
        raise Unsupported("Seek on %r" % (v,))
    return ref, v


def cursor_len(I, c):
    inner = c.inner
    if isinstance(inner, Ref):
        inner = I.load_ref(inner)
    if isinstance(inner, VecV):
        return len(inner.items)
    if isinstance(inner, SliceRef):
        return I.ctx.concretize(inner.len, limit=70000)
    raise Unsupported("cursor_len")


@model(r'^<(.*) as (?:std::io::)?Seek>::(stream_position|seek|rewind)$')
def m_seek(I, fr, callee, m, args):
    tgt = I.load_ref(args[0])
    while isinstance(tgt, Ref):
        tgt = I.load_ref(tgt)
    if isinstance(tgt, Agg) and (tgt.ty, 'seek') in I.prog.methods:
        # a crate type implementing io::Seek: its own `seek`; std's defaults for the rest
        if m.group(2) == 'seek':
            return NotImplemented
        f = [f_ for t_, f_ in I.prog.methods[(tgt.ty, 'seek')] if (t_ or '').split('::')[-1].startswith('Seek')][0]
        if m.group(2) == 'stream_position':
            return I.call_function(f, [args[0], En('SeekFrom', 'Current', (mk('i64', 0),))], {})
        r = I.call_function(f, [args[0], En('SeekFrom', 'Start', (mk('u64', 0),))], {})
        return r if r.var == 'Err' else Ok(UNIT)
    ref, c = cursor_of(I, args[0])
    op = m.group(2)
    if op == 'stream_position':
        return Ok(c.pos)
    if op == 'rewind':
        I.store_ref(ref, CursorV(c.inner, u64(0)))
        return Ok(UNIT)
    sf = args[1]
    if sf.var == 'Start':
        np = sf.f[0]
    else:
        base = u64(cursor_len(I, c)) if sf.var == 'End' else c.pos
        off = sf.f[0]                               # i64
        offu = Sc(off.e, 'u64') if off.concrete else Sc(off.e, 'u64')
        np = I.binop('Add', base, offu)
        neg = I.binop('Lt', off, mk('i64', 0))
        if I.ctx.branch(neg):
            # negative offsets: error if before 0
            if I.ctx.branch(ult(base, I.binop('Sub', u64(0), offu))):
                return io_err('InvalidInput')
    I.store_ref(ref, CursorV(c.inner, np))
    return Ok(np)


@model(r'^std::io::Cursor::<.*>::(new|into_inner|get_ref|get_mut|position|set_position)$')
def m_cursor(I, fr, callee, m, args):
    op = m.group(1)
    if op == 'new':
        return CursorV(args[0], u64(0))
    if op == 'into_inner':
        return args[0].inner
    c = I.load_ref(args[0])
    if op in ('get_ref', 'get_mut'):
        return Ref(args[0].cell, args[0].path + (0,))
    if op == 'position':
        return c.pos
    if op == 'set_position':
        I.store_ref(args[0], CursorV(c.inner, args[1]))
        return UNIT


# ------------------------------------------------------------------ Hash
def hasher_feed(I, state_ref, items):
    h = I.load_ref(state_ref)
    while isinstance(h, Ref):
        state_ref = h
        h = I.load_ref(state_ref)
    if not isinstance(h, HasherV):
        raise Unsupported("hash into %r" % (h,))
    I.store_ref(state_ref, HasherV(h.stream + tuple(items)))


@model(r'^<(u8|u16|u32|u64|u128|usize|i8|i16|i32|i64|isize|bool|char) as Hash>::hash::<.*>$')
def m_hash_int(I, fr, callee, m, args):
    v = deref_val(I, args[0])
    hasher_feed(I, args[1], [('int', m.group(1), v)])
    return UNIT


def hash_seq(I, seq, state_ref):
    xs = I.seq_list(as_slice(I, seq))
    hasher_feed(I, state_ref, [('len', 'usize', usize(len(xs)))])
    for x in xs:
        if isinstance(x, Sc):
            hasher_feed(I, state_ref, [('int', x.ty, x)])
        else:
            hash_value(I, x, state_ref)


def hash_value(I, x, state_ref):
    xv = deref_val(I, x)
    if isinstance(xv, Sc):
        hasher_feed(I, state_ref, [('int', xv.ty, xv)])
        return
    ty = xv.ty if isinstance(xv, (Agg, En)) else None
    if ty and (ty, 'hash') in I.prog.methods:
        f = I.prog.methods[(ty, 'hash')][0][1]
        rx = x if isinstance(x, Ref) else I.new_ref(xv, 'h')
        I.call_function(f, [rx, state_ref], {})
        return
    if isinstance(xv, En) and xv.ty == 'Cow':
        hash_seq(I, xv.f[0], state_ref)
        return
    if isinstance(xv, (VecV, SliceRef)):
        hash_seq(I, xv, state_ref)
        return
    if isinstance(xv, En) and xv.ty == 'IpAddr':
        hasher_feed(I, state_ref, [('int', 'isize', mk('isize', 0 if xv.var == 'V4' else 1))])
        hash_value(I, xv.f[0], state_ref)
        return
    if isinstance(xv, En) and xv.ty == 'Option':
        hasher_feed(I, state_ref, [('int', 'isize', mk('isize', 0 if xv.var == 'None' else 1))])
        if xv.var == 'Some':
            hash_value(I, xv.f[0], state_ref)
        return
    if isinstance(xv, MapV) and xv.kind.startswith('BTree'):
        hasher_feed(I, state_ref, [('len', 'usize', usize(len(xv.entries)))])
        for k_, v_ in xv.entries:
            hash_value(I, k_, state_ref)
            if not xv.kind.endswith('Set'):
                hash_value(I, v_, state_ref)
        return
    if isinstance(xv, Agg) and xv.ty in ('tuple', 'Ipv4Addr', 'Ipv6Addr', 'array'):
        if xv.ty == 'array':
            hasher_feed(I, state_ref, [('len', 'usize', usize(len(xv.f)))])
        for f in xv.f:
            hash_value(I, f, state_ref)
        return
    raise Unsupported("hash of %r" % (xv,))


@model(r'^<(Cow<.*>|Vec<.*>|\[.*\]|&\[.*\]|String|str|&str|Option<.*>|\(.*\)|(?:std::net::)?Ipv[46]Addr|(?:std::net::)?IpAddr|BTreeMap<.*>|BTreeSet<.*>|&.*) as Hash>::hash::<.*>$')
def m_hash_std(I, fr, callee, m, args):
    v = I.load_ref(args[0]) if isinstance(args[0], Ref) else args[0]
    t = m.group(1)
    if t in ('String', 'str', '&str'):
        xs = I.seq_list(as_slice(I, args[0]))
        hasher_feed(I, args[1], [('int', 'u8', x) for x in xs] + [('int', 'u8', mk('u8', 0xFF))])
        return UNIT
    hash_value(I, args[0], args[1])
    return UNIT


@model(r'^<.* as Hasher>::(write_u8|write_u16|write_u32|write_u64|write_usize|write|finish|write_isize|write_length_prefix|write_str)$')
def m_hasher(I, fr, callee, m, args):
    op = m.group(1)
    if op == 'finish':
        raise Unsupported("Hasher::finish (use stream equality)")
    if op in ('write', 'write_str'):
        xs = I.seq_list(as_slice(I, args[1]))
        hasher_feed(I, args[0], [('int', 'u8', x) for x in xs])
    else:
        hasher_feed(I, args[0], [('int', args[1].ty, args[1])])
    return UNIT


# ------------------------------------------------------------------ net
@model(r'^(?:std::net::)?Ipv4Addr::(new|octets|from_bits|to_bits)$|^<(?:std::net::)?Ipv4Addr as From<(u32|\[u8; 4\])>>::from$|^<u32 as From<(?:std::net::)?Ipv4Addr>>::from$|^<(?:std::net::)?Ipv4Addr as Into<u32>>::into$|^<u32 as Into<(?:std::net::)?Ipv4Addr>>::into$')
def m_ipv4(I, fr, callee, m, args):
    from .models import m_from_bytes, m_to_bytes
    if callee.endswith('::new'):
        return Agg('Ipv4Addr', (Agg('array', args),))
    if callee.endswith('octets'):
        return deref_val(I, args[0]).f[0]
    if 'From<[u8; 4]>' in callee:
        return Agg('Ipv4Addr', (args[0],))
    if re.match(r'^<(?:std::net::)?Ipv4Addr as From<u32>', callee) or callee.startswith('<u32 as Into<') or callee.endswith('from_bits'):
        arr = I.do_call(fr, 'core::num::<impl u32>::to_be_bytes', [args[0]])
        return Agg('Ipv4Addr', (arr,))
    v = deref_val(I, args[0])
    return I.do_call(fr, 'core::num::<impl u32>::from_be_bytes', [v.f[0]])


@model(r'^(?:std::net::)?Ipv6Addr::(octets|from_bits|to_bits)$|^<(?:std::net::)?Ipv6Addr as From<(u128|\[u8; 16\])>>::from$|^<u128 as From<(?:std::net::)?Ipv6Addr>>::from$|^<(?:std::net::)?Ipv6Addr as Into<u128>>::into$|^<u128 as Into<(?:std::net::)?Ipv6Addr>>::into$')
def m_ipv6(I, fr, callee, m, args):
    if callee.endswith('octets'):
        return deref_val(I, args[0]).f[0]
    if 'From<[u8; 16]>' in callee:
        return Agg('Ipv6Addr', (args[0],))
    if re.match(r'^<(?:std::net::)?Ipv6Addr as From<u128>', callee) or callee.startswith('<u128 as Into<') or callee.endswith('from_bits'):
        arr = I.do_call(fr, 'core::num::<impl u128>::to_be_bytes', [args[0]])
        return Agg('Ipv6Addr', (arr,))
    v = deref_val(I, args[0])
    return I.do_call(fr, 'core::num::<impl u128>::from_be_bytes', [v.f[0]])


# ------------------------------------------------------------------ bitflags 2.x (third-party crate model)
_FLAGS_ALL = {}


def flags_all(I):
    """union of the flags declared in the crate's bitflags! block (read from the source copy)"""
    key = id(I.prog)
    if key not in _FLAGS_ALL:
        import os
        p = os.path.join(I.prog.src_root, I.prog.crate_dir, 'src', 'dns', 'mod.rs')
        text = open(p).read()
        m = re.search(r'bitflags!\s*\{(.*?)\n\}', text, re.S)
        allv = 0
        for mm in re.finditer(r'const\s+\w+\s*=\s*(0b[01_]+|0x[0-9a-fA-F_]+|\d+)\s*;', m.group(1)):
            allv |= int(mm.group(1).replace('_', ''), 0)
        _FLAGS_ALL[key] = allv
    return _FLAGS_ALL[key]


def _bits(I, v):
    v = deref_val(I, v)
    while isinstance(v, Agg):
        v = v.f[0]
    return v


def _mkflags(like_public, bits):
    inner = Agg('InternalBitFlags', (bits,))
    return Agg('PacketFlag', (inner,)) if like_public else inner


@model(r'^(_::<impl (?:dns::)?PacketFlag>|InternalBitFlags|(?:dns::)?PacketFlag)::(\w+)$|^<((?:dns::)?PacketFlag|InternalBitFlags) as (BitOr|BitOrAssign|BitAnd|BitAndAssign|BitXor|BitXorAssign|Not|Sub|SubAssign)>::(\w+)$')
def m_bitflags(I, fr, callee, m, args):
    pub = 'InternalBitFlags' not in (m.group(1) or m.group(3))
    op = m.group(2) or m.group(5)
    ALL = mk('u16', flags_all(I))
    A = lambda k: _bits(I, args[k])
    band = lambda x, y: I.binop('BitAnd', x, y)
    bor = lambda x, y: I.binop('BitOr', x, y)
    bnot = lambda x: I.binop('BitXor', x, mk('u16', 0xFFFF))
    if op == 'bits':
        return A(0)
    if op == 'from_bits_retain':
        return _mkflags(pub, args[0])
    if op == 'from_bits_truncate':
        return _mkflags(pub, band(args[0], ALL))
    if op == 'from_bits':
        if I.ctx.branch(I.binop('Eq', band(args[0], bnot(ALL)), mk('u16', 0))):
            return Some(_mkflags(pub, args[0]))
        return NONE
    if op == 'empty':
        return _mkflags(pub, mk('u16', 0))
    if op == 'all':
        return _mkflags(pub, ALL)
    if op == 'is_empty':
        return I.binop('Eq', A(0), mk('u16', 0))
    if op == 'is_all':
        return I.binop('Eq', band(A(0), ALL), ALL)
    if op == 'contains':
        return I.binop('Eq', band(A(0), A(1)), A(1))
    if op == 'intersects':
        return I.binop('Ne', band(A(0), A(1)), mk('u16', 0))
    if op in ('insert', 'bitor_assign', 'remove', 'sub_assign', 'toggle', 'bitxor_assign', 'bitand_assign'):
        cur, other = A(0), A(1)
        if op in ('insert', 'bitor_assign'):
            nv = bor(cur, other)
        elif op in ('remove', 'sub_assign'):
            nv = band(cur, bnot(other))
        elif op == 'bitand_assign':
            nv = band(cur, other)
        else:
            nv = I.binop('BitXor', cur, other)
        tgt = I.load_ref(args[0])
        I.store_ref(args[0], _mkflags(isinstance(tgt, Agg) and tgt.ty == 'PacketFlag', nv))
        return UNIT
    if op in ('union', 'bitor'):
        return _mkflags(pub, bor(A(0), A(1)))
    if op in ('intersection', 'bitand'):
        return _mkflags(pub, band(A(0), A(1)))
    if op in ('difference', 'sub'):
        return _mkflags(pub, band(A(0), bnot(A(1))))
    if op in ('symmetric_difference', 'bitxor'):
        return _mkflags(pub, I.binop('BitXor', A(0), A(1)))
    if op in ('complement', 'not'):
        return _mkflags(pub, band(bnot(A(0)), ALL))
    return NotImplemented


@model(r'^<(?:std::net::)?(Ipv4Addr|Ipv6Addr|IpAddr) as PartialEq>::(eq|ne)$')
def m_ip_eq(I, fr, callee, m, args):
    a, b = deref_val(I, args[0]), deref_val(I, args[1])
    e = I.value_eq(a, b)
    return sc_from(e if m.group(2) == 'eq' else z3.Not(e), 'bool')


@model(r'^<(?:std::net::)?IpAddr as From<(?:std::net::)?(Ipv4Addr|Ipv6Addr)>>::from$|^<(?:std::net::)?(Ipv4Addr|Ipv6Addr) as Into<(?:std::net::)?IpAddr>>::into$')
def m_ipaddr_from(I, fr, callee, m, args):
    which = m.group(1) or m.group(2)
    return En('IpAddr', 'V4' if which == 'Ipv4Addr' else 'V6', (args[0],))


@model(r'^(?:std::net::)?(IpAddr|Ipv6Addr)::(to_canonical|to_ipv4_mapped|is_ipv4|is_ipv6)$')
def m_ip_canonical(I, fr, callee, m, args):
    """std: an IPv4-mapped IPv6 address ::ffff:a.b.c.d converts to the IPv4 address a.b.c.d; everything else is unchanged"""
    v = deref_val(I, args[0])
    op = m.group(2)
    if m.group(1) == 'IpAddr':
        if op == 'is_ipv4':
            return TRUE if v.var == 'V4' else FALSE
        if op == 'is_ipv6':
            return TRUE if v.var == 'V6' else FALSE
        if v.var == 'V4':
            return v
        v6 = v.f[0]
    else:
        v6 = v
    octs = I.container_items(v6.f[0])
    mapped = z3.And([o.z() == 0 for o in octs[:10]] + [o.z() == 0xFF for o in octs[10:12]])
    if I.ctx.branch(mapped):
        v4 = Agg('Ipv4Addr', (Agg('array', list(octs[12:16])),))
        if op == 'to_ipv4_mapped':
            return Some(v4)
        return En('IpAddr', 'V4', (v4,))
    if op == 'to_ipv4_mapped':
        return NONE
    return En('IpAddr', 'V6', (v6,))
