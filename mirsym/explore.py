"""Path exploration driver."""
import os
import sys
import time
import z3
from .values import *
from . import models   # noqa: F401  (fixes the import order of the model modules)
from .engine import Ctx, Interp


class PathResult:
    __slots__ = ('kind', 'value', 'msg', 'ctx', 'interp')

    def __init__(self, kind, value, msg, ctx, interp):
        self.kind = kind          # return | panic | bound | infeasible | unreachable | abort
        self.value = value
        self.msg = msg
        self.ctx = ctx
        self.interp = interp


_PROGRESS = int(os.environ.get('MIRSYM_PROGRESS', '0') or 0)


def explore(prog, run, on_path, loop_bound=16, max_paths=200000, timeout_ms=20000, time_budget=None,
            hooks=None, stats=None, order='dfs'):
    """run(I) executes the code under test on interpreter I (using I.ctx for assumptions) and returns a value.
    on_path(PathResult) is called for every completed path; if it returns a non-None value exploration
    stops and that value is returned (a violation)."""
    stats = stats if stats is not None else {}
    stats.setdefault('paths', 0)
    stats.setdefault('outcomes', {})
    work = [[]]
    t0 = time.time()
    while work:
        if stats['paths'] >= max_paths:
            stats['truncated'] = 'max_paths'
            break
        if time_budget is not None and time.time() - t0 > time_budget:
            stats['truncated'] = 'time_budget'
            break
        prefix = work.pop() if order == 'dfs' else work.pop(0)
        ctx = Ctx(prefix, work.append, stats, timeout_ms)
        I = Interp(prog, ctx, loop_bound=loop_bound)
        if hooks:
            I.hooks.update(hooks)
        try:
            v = run(I)
            res = PathResult('return', v, '', ctx, I)
        except PathEnd as e:
            res = PathResult(e.kind, None, e.msg, ctx, I)
        except LoopBack as e:
            res = PathResult('backedge', e.frame, '', ctx, I)
        stats['paths'] += 1
        if _PROGRESS and stats['paths'] % _PROGRESS == 0:
            print('[mirsym] paths=%d work=%d t=%.0fs depth=%d %s' % (stats['paths'], len(work), time.time() - t0, len(ctx.decisions) if hasattr(ctx, 'decisions') else -1, stats['outcomes']), file=sys.stderr, flush=True)
        stats['outcomes'][res.kind] = stats['outcomes'].get(res.kind, 0) + 1
        stats.setdefault('functions', set()).update(I.called)
        if res.kind == 'infeasible':
            continue
        r = on_path(res)
        if r is not None:
            return r
    stats['wall_s'] = time.time() - t0
    return None


def model_bytes(model, syms):
    out = []
    for s in syms:
        if s.concrete:
            out.append(s.e)
        else:
            out.append(model.eval(s.z(), model_completion=True).as_long())
    return out


def sym_bytes(prefix, n):
    return [sym('%s%d' % (prefix, i), 'u8') for i in range(n)]


def byte_buffer(I, syms, name='buf'):
    """&[u8] over the given byte scalars"""
    cell = Cell(Agg('array', syms), name)
    return SliceRef(Ref(cell), mk('usize', 0), mk('usize', len(syms)))
