"""Parser for rustc's `-Zunpretty=mir` text.  Produces Function objects with pre-parsed places,
operands, rvalues and terminators.  Nothing here knows about simple-dns."""
import re

INT_W = {'u8': 8, 'u16': 16, 'u32': 32, 'u64': 64, 'u128': 128, 'usize': 64,
         'i8': 8, 'i16': 16, 'i32': 32, 'i64': 64, 'i128': 128, 'isize': 64, 'char': 32}
SIGNED = {'i8', 'i16', 'i32', 'i64', 'i128', 'isize'}

OPEN = '([{<'
CLOSE = ')]}>'


class ParseError(Exception):
    pass


def split_top(s, sep=','):
    """split at top-level separators, respecting () [] {} <> and string/char literals"""
    out, depth, cur, i, n = [], 0, [], 0, len(s)
    while i < n:
        c = s[i]
        if c == '"':
            j = i + 1
            while j < n and s[j] != '"':
                j += 2 if s[j] == '\\' else 1
            cur.append(s[i:j + 1]); i = j + 1; continue
        if c == "'" and i + 2 < n and (s[i + 2] == "'" or (s[i + 1] == '\\')):
            # char literal like 'a' or '\n' (lifetimes are 'a without closing quote)
            j = s.find("'", i + 2 if s[i + 1] != '\\' else i + 3)
            if j != -1 and j - i <= 8:
                cur.append(s[i:j + 1]); i = j + 1; continue
        if c in '([{':
            depth += 1
        elif c in ')]}':
            depth -= 1
        elif c == '<':
            # generic bracket unless it is a comparison/shift (not present in MIR operands)
            depth += 1
        elif c == '>':
            if i > 0 and s[i - 1] in '-=':       # '->' or '=>'
                pass
            else:
                depth -= 1
        if c == sep and depth == 0:
            out.append(''.join(cur).strip()); cur = []
        else:
            cur.append(c)
        i += 1
    t = ''.join(cur).strip()
    if t:
        out.append(t)
    return out


def find_matching(s, i):
    """s[i] is an opening bracket; return index of its match (handles -> and strings)"""
    depth, n = 0, len(s)
    j = i
    while j < n:
        c = s[j]
        if c == '"':
            j += 1
            while j < n and s[j] != '"':
                j += 2 if s[j] == '\\' else 1
        elif c in '([{<':
            depth += 1
        elif c in ')]}':
            depth -= 1
            if depth == 0:
                return j
        elif c == '>':
            if not (j > 0 and s[j - 1] in '-='):
                depth -= 1
                if depth == 0:
                    return j
        j += 1
    raise ParseError("unbalanced: " + s[i:i + 80])


# ------------------------------------------------------------------ places
class Place:
    __slots__ = ('local', 'proj')

    def __init__(self, local, proj=()):
        self.local = local
        self.proj = proj     # tuple of ('deref',) ('field', idx, ty) ('downcast', variant) ('index', local)
        #                      ('cindex', i, from_end) ('subslice', a, b, from_end)

    def __repr__(self):
        return 'Place(%s,%s)' % (self.local, self.proj)


def parse_place(s):
    s = s.strip()
    p, rest = _place(s, 0)
    if rest != len(s):
        raise ParseError("place trailing: %r in %r" % (s[rest:], s))
    return p


def _place(s, i):
    # returns (Place, next index)
    if s[i] == '(':
        j = find_matching(s, i)
        inner = s[i + 1:j]
        if inner.startswith('*'):
            base = parse_place(inner[1:])
            pl = Place(base.local, base.proj + (('deref',),))
        else:
            # "<place> as Variant"  or "<place>.N: Ty"
            # find the place prefix
            bp, k = _place(inner, 0)
            rest = inner[k:]
            if rest.startswith(' as '):
                pl = Place(bp.local, bp.proj + (('downcast', rest[4:].strip()),))
            elif rest.startswith('.'):
                m = re.match(r'\.(\d+): (.*)$', rest, re.S)
                if not m:
                    raise ParseError("field proj: " + inner)
                pl = Place(bp.local, bp.proj + (('field', int(m.group(1)), m.group(2)),))
            else:
                raise ParseError("place paren: " + inner)
        i = j + 1
    else:
        m = re.compile(r'_\d+').match(s, i)
        if not m:
            raise ParseError("place: " + s[i:])
        pl = Place(m.group(0))
        i = m.end()
    # suffix [ ... ]
    while i < len(s) and s[i] == '[':
        j = find_matching(s, i)
        inner = s[i + 1:j]
        m = re.match(r'^(_\d+)$', inner)
        if m:
            pl = Place(pl.local, pl.proj + (('index', m.group(1)),))
        else:
            m = re.match(r'^(-?)(\d+) of (\d+)$', inner)
            if m:
                pl = Place(pl.local, pl.proj + (('cindex', int(m.group(2)), m.group(1) == '-'),))
            else:
                m = re.match(r'^(\d+):(-?)(\d+)$', inner) or re.match(r'^(\d+)\.\.(-?)(\d+)$', inner)
                if m:
                    pl = Place(pl.local, pl.proj + (('subslice', int(m.group(1)), int(m.group(3)), m.group(2) == '-'),))
                else:
                    raise ParseError("index proj: " + inner)
        i = j + 1
    return pl, i


# ------------------------------------------------------------------ operands / rvalues
class Op:
    __slots__ = ('kind', 'place', 'const')     # kind: copy | move | const

    def __init__(self, kind, place=None, const=None):
        self.kind = kind; self.place = place; self.const = const

    def __repr__(self):
        return 'Op(%s,%s)' % (self.kind, self.place or self.const)


def parse_operand(s):
    s = s.strip()
    if s.startswith('copy '):
        return Op('copy', parse_place(s[5:]))
    if s.startswith('move '):
        return Op('move', parse_place(s[5:]))
    if s.startswith('no_retag '):
        return parse_operand(s[9:])
    if s.startswith('const '):
        return Op('const', const=s[6:].strip())
    if re.match(r'^[A-Za-z_<{]', s) and not s.startswith(('copy', 'move')):
        return Op('const', const=s)        # bare function item used as a value
    raise ParseError("operand: " + s)


BINOPS = {'Add', 'Sub', 'Mul', 'Div', 'Rem', 'BitXor', 'BitAnd', 'BitOr', 'Shl', 'Shr', 'Eq', 'Lt', 'Le',
          'Ne', 'Ge', 'Gt', 'Cmp', 'Offset', 'AddWithOverflow', 'SubWithOverflow', 'MulWithOverflow',
          'AddUnchecked', 'SubUnchecked', 'MulUnchecked', 'ShlUnchecked', 'ShrUnchecked'}
UNOPS = {'Not', 'Neg', 'PtrMetadata'}

_re_cast = re.compile(r'^(.*) as (.*) \(([A-Za-z]+(?:\(.*\))?)\)$', re.S)


class Rv:
    __slots__ = ('kind', 'a', 'b', 'c')

    def __init__(self, kind, a=None, b=None, c=None):
        self.kind = kind; self.a = a; self.b = b; self.c = c

    def __repr__(self):
        return 'Rv(%s,%s,%s,%s)' % (self.kind, self.a, self.b, self.c)


def parse_rvalue(s):
    s = s.strip()
    if s.startswith('&'):
        t = s[1:].lstrip()
        mut = False
        for pre in ('raw const (fake) ', 'raw const ', 'raw mut ', 'mut ', 'fake shallow ', 'fake '):
            if t.startswith(pre):
                mut = 'mut' in pre
                t = t[len(pre):]
                break
        return Rv('ref', parse_place(t), mut)
    m = re.match(r'^([A-Za-z]+)\((.*)\)$', s, re.S)
    if m and m.group(1) in BINOPS:
        a, b = split_top(m.group(2))
        return Rv('bin', m.group(1), parse_operand(a), parse_operand(b))
    if m and m.group(1) in UNOPS:
        return Rv('un', m.group(1), parse_operand(m.group(2)))
    if s.startswith('discriminant('):
        return Rv('discr', parse_place(s[len('discriminant('):-1]))
    if s.startswith('Len('):
        return Rv('len', parse_place(s[4:-1]))
    if s.startswith(('copy ', 'move ', 'const ', 'no_retag ')):
        m = _re_cast.match(s)
        if m and (m.group(1).startswith(('copy ', 'move ', 'const ', 'no_retag '))):
            # make sure the " as " split is at top level: operand part must parse
            try:
                op = parse_operand(m.group(1))
                return Rv('cast', op, m.group(2).strip(), m.group(3))
            except ParseError:
                pass
        return Rv('use', parse_operand(s))
    if s.startswith('['):
        j = find_matching(s, 0)
        inner = s[1:j]
        parts = split_top(inner, ';')
        if len(parts) == 2:
            return Rv('repeat', parse_operand(parts[0]), parts[1].strip())
        return Rv('array', [parse_operand(x) for x in split_top(inner)])
    if s.startswith('('):
        j = find_matching(s, 0)
        if j == len(s) - 1:
            inner = s[1:j]
            return Rv('tuple', [parse_operand(x) for x in split_top(inner)])
    # aggregate: "Path { f: op, .. }" | "Path(op, ..)" | "Path"  (unit variant / unit struct)
    if s.endswith('}'):
        # find the top-level '{' that starts the field list: the last top-level " {"
        k = _agg_brace(s)
        head = s[:k].strip()
        body = s[k + 1:-1].strip()
        fields = []
        for part in split_top(body):
            fn, _, ov = part.partition(':')
            fields.append((fn.strip(), parse_operand(ov.strip())))
        return Rv('struct', head, fields)
    if s.endswith(')'):
        k = _agg_paren(s)
        head = s[:k].strip()
        body = s[k + 1:-1]
        return Rv('variant', head, [parse_operand(x) for x in split_top(body)])
    return Rv('variant', s, [])


def _agg_brace(s):
    # closure aggregates look like "{closure@f:1:2: 3:4} { x: move _1 }"; plain "T { .. }"
    depth = 0
    last = -1
    i, n = 0, len(s)
    while i < n:
        c = s[i]
        if c == '"':
            i += 1
            while i < n and s[i] != '"':
                i += 2 if s[i] == '\\' else 1
        elif c in '([{<':
            if c == '{' and depth == 0:
                last = i
            depth += 1
        elif c in ')]}':
            depth -= 1
        elif c == '>' and not (i > 0 and s[i - 1] in '-='):
            depth -= 1
        i += 1
    if last < 0:
        raise ParseError("aggregate: " + s)
    return last


def _agg_paren(s):
    depth = 0
    last = -1
    i, n = 0, len(s)
    while i < n:
        c = s[i]
        if c == '"':
            i += 1
            while i < n and s[i] != '"':
                i += 2 if s[i] == '\\' else 1
        elif c in '([{<':
            if c == '(' and depth == 0:
                last = i
            depth += 1
        elif c in ')]}':
            depth -= 1
        elif c == '>' and not (i > 0 and s[i - 1] in '-='):
            depth -= 1
        i += 1
    if last < 0:
        raise ParseError("aggregate paren: " + s)
    return last


# ------------------------------------------------------------------ statements / terminators
class Stmt:
    __slots__ = ('kind', 'place', 'rv', 'text')

    def __init__(self, kind, place=None, rv=None, text=''):
        self.kind = kind; self.place = place; self.rv = rv; self.text = text


class Term:
    __slots__ = ('kind', 'a', 'b', 'c', 'd', 'text')

    def __init__(self, kind, a=None, b=None, c=None, d=None, text=''):
        self.kind = kind; self.a = a; self.b = b; self.c = c; self.d = d; self.text = text


_IGNORED = ('StorageLive(', 'StorageDead(', 'nop', 'FakeRead(', 'AscribeUserType(', 'PlaceMention(',
            'Coverage::', 'ConstEvalCounter', 'Retag(', 'BackwardIncompatibleDropHint(')
_re_target = re.compile(r'-> \[(.*?)\]\s*$|-> (bb\d+)\s*$|-> unwind .*$', re.S)


def _split_assign(s):
    """split 'PLACE = REST' at the first top-level ' = '"""
    depth = 0
    i, n = 0, len(s)
    while i < n:
        c = s[i]
        if c in '([{<':
            depth += 1
        elif c in ')]}':
            depth -= 1
        elif c == '>' and not (i > 0 and s[i - 1] in '-='):
            depth -= 1
        elif c == ' ' and depth == 0 and s.startswith(' = ', i):
            return s[:i], s[i + 3:]
        i += 1
    return None, None


def parse_line(s):
    """returns Stmt or Term"""
    s = s.strip()
    if s.endswith(';'):
        s = s[:-1]
    for ig in _IGNORED:
        if s.startswith(ig):
            return Stmt('nop', text=s)
    if s.startswith('goto -> '):
        return Term('goto', s[8:].strip(), text=s)
    if s == 'return':
        return Term('return', text=s)
    if s in ('unreachable', 'resume', 'abort', 'unwind resume', 'terminate(abi)', 'terminate(cleanup)'):
        return Term('unreachable' if s == 'unreachable' else 'resume', text=s)
    if s.startswith('switchInt('):
        j = find_matching(s, len('switchInt'))
        op = parse_operand(s[len('switchInt('):j])
        m = re.search(r'-> \[(.*)\]$', s[j:], re.S)
        targets, otherwise = [], None
        for part in split_top(m.group(1)):
            k, _, v = part.rpartition(':')
            k = k.strip(); v = v.strip()
            if k == 'otherwise':
                otherwise = v
            else:
                targets.append((int(k), v))
        return Term('switch', op, targets, otherwise, text=s)
    if s.startswith('assert('):
        j = find_matching(s, len('assert'))
        inner = split_top(s[len('assert('):j])
        cond = inner[0]
        neg = cond.startswith('!')
        if neg:
            cond = cond[1:]
        m = re.search(r'success: (bb\d+)', s[j:])
        return Term('assert', parse_operand(cond), neg, inner[1] if len(inner) > 1 else '', m.group(1), text=s)
    if s.startswith('drop('):
        j = find_matching(s, len('drop'))
        m = re.search(r'return: (bb\d+)', s[j:])
        return Term('drop', parse_place(s[5:j]), m.group(1) if m else None, text=s)
    if s.startswith('falseEdge') or s.startswith('falseUnwind'):
        m = re.search(r'real: (bb\d+)', s)
        return Term('goto', m.group(1), text=s)
    if s.startswith('discriminant('):
        lhs, rhs = _split_assign(s)
        return Stmt('setdiscr', parse_place(lhs[len('discriminant('):-1]), int(rhs), text=s)
    if s.startswith('Deinit('):
        return Stmt('nop', text=s)
    lhs, rhs = _split_assign(s)
    if lhs is None:
        # diverging call without destination e.g. "panic(..) -> unwind continue"
        raise ParseError("line: " + s)
    # call?  "... -> [return: bbN, unwind ...]" or "-> unwind continue" (diverging)
    m = re.search(r' -> (\[return: (bb\d+), unwind[^\]]*\]|\[return: (bb\d+)\]|unwind [a-z: 0-9b]+|bb\d+)$', rhs)
    if m and rhs[:m.start()].rstrip().endswith(')'):
        callpart = rhs[:m.start()].rstrip()
        k = _agg_paren(callpart)
        callee = callpart[:k].strip()
        args = [parse_operand(x) for x in split_top(callpart[k + 1:-1])]
        ret = m.group(2) or m.group(3)
        return Term('call', parse_place(lhs), callee, args, ret, text=s)
    return Stmt('assign', parse_place(lhs), parse_rvalue(rhs), text=s)


# ------------------------------------------------------------------ functions
class Function:
    def __init__(self, name, sig):
        self.name = name          # dump name, e.g. "name::<impl at ...>::parse"
        self.sig = sig
        self.params = []          # [(local, type)]
        self.ret = ''
        self.locals = {}          # local -> type text
        self.debug = {}           # debug name -> local or const text
        self.raw_blocks = {}      # bb -> [lines]
        self._blocks = None
        self.is_const = False
        self.generics = []
        self.line = 0

    @property
    def blocks(self):
        if self._blocks is None:
            b = {}
            for bb, lines in self.raw_blocks.items():
                items = [parse_line(l) for l in lines]
                stmts = [x for x in items if isinstance(x, Stmt)]
                terms = [x for x in items if isinstance(x, Term)]
                if len(terms) != 1 or not isinstance(items[-1], Term):
                    raise ParseError("block %s of %s has %d terminators" % (bb, self.name, len(terms)))
                b[bb] = (stmts, terms[0])
            self._blocks = b
        return self._blocks


_re_fn = re.compile(r'^fn (.*) \{$')
_re_const = re.compile(r'^(?:const|static(?: mut)?) (.*?): (.*) = \{$')
_re_const1 = re.compile(r'^const (.*?): (.*?) = const (.*);$')
_re_let = re.compile(r'^let (?:mut )?(_\d+): (.*);$')
_re_debug = re.compile(r'^debug (.*?) => (.*);$')
_re_bb = re.compile(r'^(bb\d+)(?: \(cleanup\))?: \{$')


def _const_line(l, one_line):
    """'const NAME: TYPE = const VALUE;' (one_line) or 'const NAME: TYPE = {' -> (name, type, value|None)"""
    mm = re.match(r'^(?:const|static(?: mut)?) ', l)
    if not mm:
        return None
    body = l[mm.end():]
    depth = 0
    k = None
    for i, c in enumerate(body):
        if c in '<[(':
            depth += 1
        elif c in ')]' or (c == '>' and not (i > 0 and body[i - 1] in '-=')):
            depth -= 1
        elif c == ':' and depth == 0 and body[i:i + 2] == ': ' and not body[i - 1] == ':' and body[i + 1:i + 2] != ':':
            k = i
            break
    if k is None:
        return None
    name, rest = body[:k], body[k + 2:]
    if one_line:
        m = re.match(r'^(.*?) = const (.*);$', rest)
        if not m:
            return None
        return name, m.group(1), m.group(2)
    if not rest.endswith(' = {'):
        return None
    return name, rest[:-4], None


def _split_sig(hdr):
    """'path(args) -> ret' -> (path, [(local,type)], ret)"""
    depth = 0
    k = 0
    n = len(hdr)
    while k < n:
        c = hdr[k]
        if c in '<[{':
            depth += 1
        elif c in ']}':
            depth -= 1
        elif c == '>' and not (k > 0 and hdr[k - 1] in '-='):
            depth -= 1
        elif c == '(' and depth == 0:
            break
        k += 1
    name = hdr[:k]
    j = find_matching(hdr, k)
    args = hdr[k + 1:j]
    params = []
    for a in split_top(args):
        l, _, t = a.partition(':')
        params.append((l.strip(), t.strip()))
    ret = hdr[j + 1:].strip()
    if ret.startswith('->'):
        ret = ret[2:].strip()
    return name, params, ret


def parse_mir(text):
    """returns (functions: {dump name: [Function]}, consts: {name: [(type, value text | Function)]})"""
    fns, consts = {}, {}
    lines = text.split('\n')
    i, n = 0, len(lines)
    while i < n:
        l = lines[i]
        if not l or l[0] == ' ' or l.startswith('//'):
            i += 1; continue
        m1 = _const_line(l, one_line=True)
        if m1:
            consts.setdefault(m1[0], []).append((m1[1], m1[2]))
            i += 1; continue
        mf = _re_fn.match(l)
        mc = None
        if not mf:
            cl = _const_line(l, one_line=False)
            if cl:
                class _M:
                    def __init__(s, a, b): s.a, s.b = a, b
                    def group(s, k): return (None, s.a, s.b)[k]
                mc = _M(cl[0], cl[1])
        if not (mf or mc):
            i += 1; continue
        if mf:
            name, params, ret = _split_sig(mf.group(1))
            f = Function(name, mf.group(1))
            f.params, f.ret = params, ret
        else:
            f = Function(mc.group(1), l)
            f.ret = mc.group(2)
            f.is_const = True
        f.line = i + 1
        i += 1
        cur = None
        while i < n and lines[i] != '}':
            s = lines[i].strip()
            if cur is not None:
                if s == '}':
                    cur = None
                elif s:
                    # statements may span several lines (long aggregates); join until ';'
                    acc = s
                    while not acc.endswith(';') and i + 1 < n:
                        i += 1
                        acc += ' ' + lines[i].strip()
                    f.raw_blocks[cur].append(acc)
            else:
                mb = _re_bb.match(s)
                if mb:
                    cur = mb.group(1); f.raw_blocks[cur] = []
                else:
                    ml = _re_let.match(s)
                    if ml:
                        f.locals[ml.group(1)] = ml.group(2)
                    else:
                        md = _re_debug.match(s)
                        if md:
                            f.debug.setdefault(md.group(1), md.group(2))
            i += 1
        for l_, t_ in f.params:
            f.locals[l_] = t_
        f.locals['_0'] = f.ret
        if f.is_const:
            consts.setdefault(f.name, []).append((f.ret, f))
        else:
            fns.setdefault(f.name, []).append(f)
        i += 1
    return fns, consts
