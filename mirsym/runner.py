"""Engine M front end: dump MIR from the current tree, run spec tasks on a process pool, aggregate per
obligation, replay counter-examples natively before reporting them."""
import importlib, json, multiprocessing as mp, os, shutil, subprocess, sys, time, traceback
from . import program as G
from . import models as MODELS
from .values import Unsupported

TRUSTED_BASE = [
    "rustc -Zunpretty=mir (nightly) as the semantics of the source",
    "mirsym interpreter (/verif/mirsym/engine.py) and its std models (/verif/mirsym/models*.py)",
    "z3 (python bindings) as deciding solver",
    "reference models in /verif/mirsym/specs and /verif/spec",
]

_PROGS = {}
_SCRATCH = None


def _scratch():
    global _SCRATCH
    if _SCRATCH is None:
        sys.path.insert(0, os.path.dirname(os.path.dirname(os.path.abspath(__file__))))
        from lib import common
        _SCRATCH = common.scratch_dir("verif-m-")
    return _SCRATCH


def program(crate):
    """Program for 'simple-dns' or 'simple-mdns', dumped from /repo's current working tree"""
    if crate not in _PROGS:
        from lib import common
        sc = os.path.join(_scratch(), crate)
        os.makedirs(sc, exist_ok=True)
        pre = os.environ.get('MIRSYM_MIR_' + crate.replace('-', '_').upper())
        if pre:       # development shortcut: reuse an existing dump "<mir file>:<src root>"
            mir_file, root = pre.split(':')
            text = open(mir_file).read()
        else:
            text, root = G.dump_mir(common.REPO, crate, 'sync' if crate == 'simple-mdns' else None, sc)
        if crate == 'simple-mdns':
            # simple-mdns calls into simple-dns: one program over both dumps
            dns = program('simple-dns')
            text = dns.mir_text + '\n' + text
            _PROGS[crate] = G.Program(text, root, 'simple-dns', extra_crates=['simple-mdns'])
        else:
            _PROGS[crate] = G.Program(text, root, crate)
        _PROGS[crate].mir_text = text
    return _PROGS[crate]


_TASK_CTX = {}


def _run_task(arg):
    oid, modname, tid, params, tier = arg
    t0 = time.time()
    try:
        mod = importlib.import_module('mirsym.specs.' + modname)
        prog = program(mod.CRATE)
        r = mod.run_task(prog, tid, params, tier)
        r.setdefault('status', 'ok')
        nb = (r.get('outcomes') or {}).get('bound', 0)
        if r['status'] == 'ok' and nb and not r.get('bound_ok'):
            # a path that was cut by a loop / step bound was not examined to its end: never a silent pass
            r['status'] = 'inconclusive'
            r['detail'] = '%d path(s) were cut by a loop or step bound and the spec does not account for them' % nb
    except Unsupported as e:
        r = {'status': 'inconclusive', 'detail': 'unsupported: %s' % e}
    except Exception as e:
        r = {'status': 'inconclusive', 'detail': 'engine error: %s\n%s' % (e, traceback.format_exc()[-1500:])}
    r['task'] = tid
    r['oid'] = oid
    r['wall_s'] = round(time.time() - t0, 2)
    fs = r.get('functions')
    if isinstance(fs, set):
        r['functions'] = sorted(fs)
    return r


def run_obligations(prop, obls, tier):
    """obls: registry.Obl with engine 'M', target = spec module name, params = dict.  Returns one result dict
    per obligation (same order)."""
    tasks = []
    crates = set()
    for o in obls:
        mod = importlib.import_module('mirsym.specs.' + o.target)
        crates.add(mod.CRATE)
        for tid, params in mod.tasks(tier, o.params):
            tasks.append((o.id, o.target, tid, params, tier))
    for c in crates:
        program(c)                       # dump + parse once, before forking
    jobs = int(os.environ.get('VERIF_JOBS', '16'))
    results = []
    if jobs <= 1 or len(tasks) <= 1:
        results = [_run_task(t) for t in tasks]
    else:
        ctx = mp.get_context('fork')
        with ctx.Pool(min(jobs, len(tasks))) as pool:
            results = pool.map(_run_task, tasks, chunksize=1)
    out = []
    for o in obls:
        rs = [r for r in results if r['oid'] == o.id]
        agg = {'status': 'ok', 'tasks': len(rs), 'queries': 0, 'solver_s': 0.0, 'paths': 0,
               'outcomes': {}, 'functions': set(), 'covers_witnessed': 0, 'bound_hits': 0, 'task_results': [], 'traces_validated': 0, 'violations': []}
        for r in rs:
            agg['queries'] += r.get('queries', 0)
            agg['solver_s'] += r.get('solver_s', 0.0)
            agg['paths'] += r.get('paths', 0)
            agg['covers_witnessed'] += r.get('covers_witnessed', 0)
            agg['traces_validated'] += r.get('traces_validated', 0)
            agg['bound_hits'] += r.get('outcomes', {}).get('bound', 0)
            for k, v in r.get('outcomes', {}).items():
                agg['outcomes'][k] = agg['outcomes'].get(k, 0) + v
            agg['functions'].update(r.get('functions', ()))
            agg['task_results'].append({k: r[k] for k in ('task', 'status', 'paths', 'queries', 'wall_s', 'detail', 'truncated', 'covers', 'bound_ok') if k in r})
            if r['status'] == 'violation':
                # every violating task is kept, one per role: a known finding in one task must not mask a new violation in another
                role = r.get('role', 'any')
                if any(v['role'] == role and v['confirmed'] for v in agg['violations']):
                    continue
                confirmed = replay_case(r.get('cex'))
                agg['violations'].append({'role': role, 'detail': r.get('detail'), 'cex': r.get('cex'), 'task': r['task'],
                                          'confirmed': bool(confirmed), 'no_entry': confirmed is None})
            elif r['status'] == 'inconclusive' and not agg.get('inconclusive_detail'):
                agg['inconclusive_detail'] = '%s: %s' % (r['task'], r.get('detail'))
        conf = [v for v in agg['violations'] if v['confirmed']]
        unconf = [v for v in agg['violations'] if not v['confirmed'] and not any(c['role'] == v['role'] for c in conf)]
        if agg.get('inconclusive_detail'):
            agg['status'] = 'inconclusive'
            agg['detail'] = agg['inconclusive_detail']
            agg.setdefault('unconfirmed', agg['inconclusive_detail'])
        if conf:
            agg['status'] = 'violation'
            agg['detail'] = conf[0]['detail']
            agg['cex'] = conf[0]['cex']
            agg['role'] = conf[0]['role']
        if unconf:
            u = unconf[0]
            agg['unconfirmed'] = ('counter-example has no native replay entry: %s' % (u['detail'],)) if u['no_entry'] else (
                'counter-example did not reproduce natively (engine/model defect): %s %s' % (u['detail'], json.dumps(u['cex'], default=str)[:600]))
            if not conf:
                agg['status'] = 'inconclusive'
                agg['detail'] = agg['unconfirmed']
        agg['solver_s'] = round(agg['solver_s'], 2)
        agg['functions'] = sorted(agg['functions'])
        agg['models_used'] = sorted(MODELS.USED)
        out.append(agg)
    return out


# ------------------------------------------------------------------------------------ native replay
REPLAY_SRC = os.path.join(os.path.dirname(os.path.dirname(os.path.abspath(__file__))), 'replay')


def build_replay_overlay(crate='simple-dns'):
    from lib import common
    dst = os.path.join(_scratch(), 'replay-' + crate)
    if os.path.exists(dst):
        return dst
    src = os.path.join(common.REPO, 'simple-dns')
    os.makedirs(dst)
    shutil.copytree(os.path.join(src, 'src'), os.path.join(dst, 'src'))
    shutil.copy(os.path.join(src, 'README.md'), os.path.join(dst, 'README.md'))
    with open(os.path.join(dst, 'Cargo.toml'), 'w') as f:
        f.write('[package]\nname = "simple-dns"\nversion = "0.0.0"\nedition = "2021"\n\n[dependencies]\nbitflags = "2.4"\n\n[workspace]\n')
    shutil.copy(os.path.join(common.REPO, 'Cargo.lock'), os.path.join(dst, 'Cargo.lock'))
    shutil.copy(os.path.join(REPLAY_SRC, 'verif_replay.rs'), os.path.join(dst, 'src', 'dns', 'verif_replay.rs'))
    with open(os.path.join(dst, 'src', 'dns', 'mod.rs'), 'a') as f:
        f.write('\n#[cfg(test)]\n#[allow(dead_code, unused_imports)]\nmod verif_replay;\n')
    with open(os.path.join(dst, 'src', 'dns', 'rdata', 'mod.rs'), 'a') as f:
        f.write('\n#[cfg(test)]\npub use ipseckey::Gateway;\n#[cfg(test)]\npub use nsec::TypeBitMap;\n')
    return dst


def native_run_mdns(case, release=False):
    """simple-mdns cases: a generated #[cfg(test)] module inside a scratch copy of the whole workspace"""
    from lib import common
    dst = os.path.join(_scratch(), 'replay-mdns')
    if not os.path.exists(dst):
        os.makedirs(dst)
        for item in ('Cargo.toml', 'Cargo.lock', 'simple-dns', 'simple-mdns'):
            s_, d_ = os.path.join(common.REPO, item), os.path.join(dst, item)
            if os.path.isdir(s_):
                shutil.copytree(s_, d_, ignore=shutil.ignore_patterns('target'))
            else:
                shutil.copy(s_, d_)
        with open(os.path.join(dst, 'simple-mdns', 'src', 'lib.rs'), 'a') as f:
            f.write('\n#[cfg(test)]\n#[allow(dead_code, unused_imports, clippy::all)]\nmod verif_case;\n')
        with open(os.path.join(dst, 'simple-mdns', 'src', 'resource_record_manager.rs'), 'a') as f:
            f.write('\n#[cfg(test)]\npub(crate) fn get_key_for_test(name: &Name) -> Vec<u8> {\n    get_key(name)\n}\n')
        with open(os.path.join(dst, 'simple-mdns', 'src', 'sync_discovery', 'service_discovery.rs'), 'a') as f:
            f.write('\n#[cfg(test)]\npub(crate) fn add_response_for_test(packet: Packet, service_name: &Name<\'_>, full_name: &Name<\'_>, '
                    'owned_resources: &mut ResourceRecordManager) {\n    add_response_to_resources(packet, service_name, full_name, owned_resources, &mut None)\n}\n')
        with open(os.path.join(dst, 'simple-mdns', 'src', 'sync_discovery', 'mod.rs'), 'a') as f:
            f.write('\n#[cfg(test)]\npub(crate) use service_discovery::add_response_for_test;\n')
    prelude = open(os.path.join(REPLAY_SRC, 'mdns_prelude.rs')).read()
    with open(os.path.join(dst, 'simple-mdns', 'src', 'verif_case.rs'), 'w') as f:
        f.write(prelude + '\n' + case['code'])
    env = common.env_offline({'CARGO_TARGET_DIR': os.path.join(_scratch(), 'replay-target-mdns')})
    cmd = ['cargo', 'test', '--offline', '-p', 'simple-mdns', '--features', 'sync', '--lib', 'verif_case', '--quiet']
    if release:
        cmd.append('--release')
    cmd += ['--', '--nocapture', '--test-threads', '1']
    try:
        p = subprocess.run(cmd, cwd=dst, env=env, capture_output=True, text=True, timeout=900)
    except subprocess.TimeoutExpired:
        return {'outcome': 'hang'}
    for line in (p.stdout + p.stderr).split('\n'):
        if line.startswith('REPLAY-RESULT '):
            return json.loads(line[len('REPLAY-RESULT '):])
    if 'panicked at' in p.stdout + p.stderr:
        return {'outcome': 'panic', 'log': (p.stdout + p.stderr)[-800:]}
    return {'outcome': 'no-result', 'log': (p.stdout + p.stderr)[-1500:]}


def native_run(case, release=False):
    """run one replay case natively; returns the parsed REPLAY-RESULT json or None"""
    from lib import common
    if case.get('entry') == 'mdns_test':
        return native_run_mdns(case, release)
    dst = build_replay_overlay()
    cpath = os.path.join(_scratch(), 'case.json')
    with open(cpath, 'w') as f:
        json.dump(case, f, default=str)
    with open(cpath + '.kv', 'w') as f:
        for k, v in case.items():
            if k == 'bytes':
                v = ''.join('%02x' % b for b in v)
            if v is None:
                v = ''
            if isinstance(v, (str, int)):
                f.write('%s=%s\n' % (k, v))
    env = common.env_offline({'VERIF_CASE': cpath, 'CARGO_TARGET_DIR': os.path.join(_scratch(), 'replay-target')})
    test_name = 'verif_replay'
    if case.get('entry') == 'rust_test':
        with open(os.path.join(dst, 'src', 'dns', 'verif_case.rs'), 'w') as f:
            f.write(case['code'])
        modrs = os.path.join(dst, 'src', 'dns', 'mod.rs')
        if 'mod verif_case;' not in open(modrs).read():
            with open(modrs, 'a') as f:
                f.write('\n#[cfg(test)]\n#[allow(dead_code, unused_imports)]\nmod verif_case;\n')
        test_name = 'verif_case'
    cmd = ['cargo', 'test', '--offline', '--lib', test_name, '--quiet']
    if release:
        cmd.append('--release')
    cmd += ['--', '--nocapture', '--test-threads', '1']
    try:
        p = subprocess.run(cmd, cwd=dst, env=env, capture_output=True, text=True, timeout=600)
    except subprocess.TimeoutExpired:
        return {'outcome': 'hang'}
    for line in (p.stdout + p.stderr).split('\n'):
        if line.startswith('REPLAY-RESULT '):
            return json.loads(line[len('REPLAY-RESULT '):])
    return {'outcome': 'no-result', 'log': (p.stdout + p.stderr)[-1500:]}


def replay_case(cex):
    """True = reproduces natively (dev or release), False = does not, None = no replay entry"""
    if not cex or 'entry' not in cex:
        return None
    exp = cex.get('expect')
    for rel in (False, True):
        r = native_run(cex, release=rel)
        if r is None:
            continue
        if matches_expectation(r, exp):
            cex.setdefault('native', {})['release' if rel else 'dev'] = r
            return True
        cex.setdefault('native', {})['release' if rel else 'dev'] = r
    return False


def matches_expectation(r, exp):
    """exp: {'outcome': 'panic'} | {'differs_from': {...}} | {'outcome': 'ok', ...}"""
    if exp is None:
        return False
    if 'outcome' in exp and r.get('outcome') != exp['outcome']:
        return False
    for k, v in exp.get('equals', {}).items():
        if r.get(k) != v:
            return False
    for k, v in exp.get('not_equals', {}).items():
        if r.get(k) == v:
            return False
    if exp.get('any_failure'):
        return r.get('outcome') == 'panic' or bool(r.get('fails'))
    if 'differs' in exp:
        return any(r.get(k) != v for k, v in exp['differs'].items())
    return True


def replay(data, path):
    from lib import common
    cex = data.get('cex')
    ok = replay_case(cex)
    print(json.dumps(cex, indent=1, default=str)[:3000])
    if ok:
        print("VIOLATION property=%s replay=%s" % (data['property'], path))
        return common.EXIT_VIOLATION
    if ok is None:
        return common.EXIT_INCONCLUSIVE
    print("counter-example does not reproduce on the current tree")
    return common.EXIT_OK
