#!/usr/bin/env python3
"""Apply a stored seeded change to /repo, run the quick checks of the given properties, undo it.
usage: run_seed.py <seed id> <prop> [<prop>...]     (never leaves /repo modified)"""
import json, os, subprocess, sys, time
sid, props = sys.argv[1], sys.argv[2:]
d = os.path.join('/verif/seeded', sid)
patch = os.path.join(d, 'patch.diff')
st = subprocess.run('git -C /repo status --porcelain --untracked-files=no', shell=True, capture_output=True, text=True).stdout.strip()
assert not st, "/repo is not clean: " + st
r = subprocess.run('git -C /repo apply %s' % patch, shell=True, capture_output=True, text=True)
assert r.returncode == 0, r.stderr
res = {}
try:
    for p in props:
        t = time.time()
        os.makedirs('/tmp/seed-evidence', exist_ok=True)
        q = subprocess.run(['./check', p, '--tier', os.environ.get('SEED_TIER', 'quick')], cwd='/verif', capture_output=True, text=True,
                           env=dict(os.environ, VERIF_EVIDENCE_DIR='/tmp/seed-evidence'))
        lines = [l for l in q.stdout.split('\n') if l.startswith(('VIOLATION', 'KNOWN-FINDING', 'INCONCLUSIVE'))]
        res[p] = {'exit': q.returncode, 'lines': lines[:6], 's': round(time.time() - t)}
        print(sid, p, 'exit', q.returncode, lines[:3], flush=True)
finally:
    subprocess.run('git -C /repo checkout -- .', shell=True)
mp = os.path.join(d, 'meta.json')
meta = json.load(open(mp))
det = meta.get('runs') or {}
det.update(res)
meta['runs'] = det
meta['detected_by'] = sorted(p for p, v in det.items() if v['exit'] == 1)
json.dump(meta, open(mp, 'w'), indent=1)
