#!/usr/bin/env python3
"""Print the seeded-change table (markdown) from /verif/seeded/*/meta.json."""
import glob, json, os, re
rows = []
for f in sorted(glob.glob('/verif/seeded/*/meta.json')):
    m = json.load(open(f))
    patch = open(os.path.join(os.path.dirname(f), 'patch.diff')).read()
    files = sorted(set(re.findall(r'^\+\+\+ b/(\S+)', patch, re.M)))
    note = (m.get('needs_to_manifest') or '').strip().split('\n')
    first = next((l.strip() for l in note if l.strip()), '')[:150]
    runs = m.get('runs') or {}
    det = []
    for p, v in sorted(runs.items()):
        if v['exit'] == 1:
            obl = sorted({re.sub(r'\s+.*', '', l.split(None, 1)[1]) for l in v['lines'] if l.startswith('VIOLATION ') and 'property=' not in l})
            det.append('%s (%s)' % (p, ', '.join(obl)[:90]))
        elif v['exit'] == 2:
            det.append('%s: exit 2 (inconclusive, not a pass)' % p)
        elif p != m.get('breaks_property'):
            det.append('%s: passes (not the property this change breaks)' % p)
        else:
            det.append('%s: missed' % p)
    rows.append('| %s | %s | %s | %s |' % (m['id'], ', '.join(os.path.basename(x) for x in files), first.replace('|', '/'), '; '.join(det) or 'not run'))
print('| seed | file | what it breaks / needs | result of the checks |')
print('|---|---|---|---|')
print('\n'.join(rows))
