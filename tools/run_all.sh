#!/bin/sh
# run every property's quick (or $1) check sequentially; prints one line per property
tier=${1:-quick}
cd /verif
props=${2:-"C01 C02 C03 C04 C05 C06 C07 C08 C09 C10 C11 C12 C13 C14 C15 C16 C17 C18 C19 C20"}
for p in $props; do
  s=$(date +%s)
  ./check $p --tier $tier > /tmp/all_$p.log 2>&1
  rc=$?
  e=$(date +%s)
  echo "$p exit=$rc $((e-s))s $(grep -c '^OK' /tmp/all_$p.log) ok, $(grep -c '^INCONCLUSIVE' /tmp/all_$p.log) inconclusive, $(grep -c '^VIOLATION ' /tmp/all_$p.log) violation"
done
