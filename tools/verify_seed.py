#!/usr/bin/env python3
"""Confirm a seeded change independently, in a scratch worktree of /repo (never in /repo itself):
   1. the patch applies, the workspace builds and the existing test suite passes with it,
   2. the demonstration fails with the change and passes without it.
Then store it under /verif/seeded/<id>/ (patch.diff, demo.rs, meta.json).
usage: verify_seed.py <agent out dir e.g. /tmp/seed/C08a/out/m1> <seed id e.g. C08a-m1> <property>"""
import json, os, re, shutil, subprocess, sys, tempfile

src, sid, prop = sys.argv[1], sys.argv[2], sys.argv[3]
notes = open(os.path.join(src, 'notes.txt')).read() if os.path.exists(os.path.join(src, 'notes.txt')) else ''
crate = 'simple-mdns' if re.search(r'simple-mdns/tests|belongs to .?simple-mdns|crate: simple-mdns', notes) and \
    not re.search(r'belongs (?:to|in) .?simple-dns', notes) else 'simple-dns'
wt = tempfile.mkdtemp(prefix='seedwt-', dir='/tmp')
env = dict(os.environ, CARGO_NET_OFFLINE='true', CARGO_TARGET_DIR=os.path.join(wt, 'target'))


def sh(cmd, cwd=wt, timeout=1800):
    p = subprocess.run(cmd, cwd=cwd, env=env, shell=True, capture_output=True, text=True, timeout=timeout)
    return p.returncode, p.stdout + p.stderr


res = {'id': sid, 'property': prop, 'source': src, 'crate': crate}
try:
    os.rmdir(wt)
    rc, out = sh('git -C /repo worktree add -f --detach %s HEAD' % wt, cwd='/repo')
    assert rc == 0, out
    demo_text = open(os.path.join(src, 'demo.rs')).read()
    mfile = (re.search(r'(?i)append\w*\s+(?:it\s+)?(?:to\s+)?(?:the end of\s+)?`?(simple-(?:dns|mdns)/src/[\w/]+\.rs)', demo_text[:600] + '\n' + notes) or
             re.search(r'(simple-(?:dns|mdns)/src/[\w/]+\.rs)', demo_text[:600] + '\n' + notes))
    snippet = ('#[cfg(test)]' in demo_text and re.search(r'^mod\s+\w+', demo_text, re.M) and mfile is not None)
    if snippet:
        # a crate-internal #[cfg(test)] module to append to a source file named in the notes
        target = os.path.join(wt, mfile.group(1))
        crate = 'simple-mdns' if 'simple-mdns' in mfile.group(1) else 'simple-dns'
        res['crate'] = crate
        res['demo_kind'] = 'snippet appended to ' + mfile.group(1)
        feat = '--features sync' if crate == 'simple-mdns' else ''
        modname = re.search(r'\bmod\s+(\w+)', demo_text).group(1)
        demo_cmd = 'cargo test --offline -p %s %s --lib %s 2>&1 | tail -25' % (crate, feat, modname)

        class _D:
            orig = None
        def put_demo():
            _D.orig = open(target).read()
            open(target, 'a').write('\n' + demo_text + '\n')
        def del_demo():
            open(target, 'w').write(_D.orig)
    else:
        feat = '--features sync' if crate == 'simple-mdns' else ''
        demo_cmd = 'cargo test --offline -p %s %s --test demo_seed 2>&1 | tail -25' % (crate, feat)
        def put_demo():
            shutil.copy(os.path.join(src, 'demo.rs'), os.path.join(wt, crate, 'tests', 'demo_seed.rs'))
        def del_demo():
            os.remove(os.path.join(wt, crate, 'tests', 'demo_seed.rs'))
    demo_dst = os.path.join(wt, crate, 'tests', 'demo_seed.rs')
    put_demo()
    rc0, out0 = sh(demo_cmd)
    if 'running 0 tests' in out0 and 'test result: ok. 0 passed' in out0 and ' 1 passed' not in out0 and snippet:
        out0 = out0
    res['demo_without_change'] = 'pass' if ('test result: ok' in out0 and 'FAILED' not in out0) else 'FAIL'
    del_demo()
    rc, out = sh('git apply %s' % os.path.join(src, 'patch.diff'))
    res['applies'] = rc == 0
    assert rc == 0, out
    rc1, out1 = sh('cargo test --workspace --offline --lib --bins 2>&1 | grep -E "test result|FAILED|error" | head -20; '
                   'cargo test --offline -p simple-dns --tests 2>&1 | grep -E "test result|FAILED" | head -20; cargo test --offline -p simple-dns --doc 2>&1 | grep -E "test result|FAILED" | head -5')
    res['suite_with_change'] = 'pass' if ('FAILED' not in out1 and 'error' not in out1 and 'test result: ok' in out1) else 'FAIL'
    res['suite_log'] = out1[-800:]
    put_demo()
    rc2, out2 = sh('timeout 600 ' + demo_cmd)
    res['demo_with_change'] = 'FAIL' if ('FAILED' in out2 or 'panicked' in out2 or rc2 != 0 and 'test result: ok' not in out2) else 'pass'
    res['demo_log'] = out2[-600:]
finally:
    subprocess.run('git -C /repo worktree remove --force %s' % wt, shell=True, capture_output=True)
    shutil.rmtree(wt, ignore_errors=True)

res['confirmed'] = (res.get('applies') and res.get('suite_with_change') == 'pass' and
                    res.get('demo_with_change') == 'FAIL' and res.get('demo_without_change') == 'pass')
if res['confirmed']:
    d = os.path.join('/verif/seeded', sid)
    os.makedirs(d, exist_ok=True)
    shutil.copy(os.path.join(src, 'patch.diff'), os.path.join(d, 'patch.diff'))
    shutil.copy(os.path.join(src, 'demo.rs'), os.path.join(d, 'demo.rs'))
    meta = {'id': sid, 'breaks_property': prop, 'needs_to_manifest': notes.strip(), 'demo_crate': crate,
            'confirmed_by': 'tools/verify_seed.py in a scratch worktree: existing suite passes with the change '
                            '(cargo test --workspace --lib --bins; simple-dns --tests --doc); demo fails with the '
                            'change and passes without it',
            'detected_by': None}
    json.dump(meta, open(os.path.join(d, 'meta.json'), 'w'), indent=1)
print(json.dumps({k: v for k, v in res.items() if k not in ('suite_log', 'demo_log')}))
if not res['confirmed']:
    print(res.get('suite_log', ''), res.get('demo_log', ''))
