#!/usr/bin/env python3
"""Re-run stored seeded changes against the quick check of the property each one breaks, in scratch worktrees of /repo
(never /repo itself), N at a time.  usage: run_seeds_parallel.py <jobs> [<id regex>]   Updates seeded/<id>/meta.json."""
import json, os, re, subprocess, sys, time, glob, shutil
from concurrent.futures import ThreadPoolExecutor
jobs = int(sys.argv[1])
pat = re.compile(sys.argv[2] if len(sys.argv) > 2 else '.')
seeds = sorted(os.path.basename(os.path.dirname(f)) for f in glob.glob('/verif/seeded/*/meta.json'))
seeds = [s for s in seeds if pat.search(s)]


def one(sid):
    d = os.path.join('/verif/seeded', sid)
    meta = json.load(open(os.path.join(d, 'meta.json')))
    prop = meta['breaks_property']
    wt = '/tmp/sw-%s' % sid
    subprocess.run('git -C /repo worktree remove --force %s' % wt, shell=True, capture_output=True)
    r = subprocess.run('git -C /repo worktree add -f --detach %s HEAD && git -C %s apply %s/patch.diff' % (wt, wt, d), shell=True, capture_output=True, text=True)
    if r.returncode != 0:
        return sid, prop, {'exit': -1, 'lines': [r.stderr[-300:]], 's': 0}
    t = time.time()
    os.makedirs('/tmp/seed-evidence', exist_ok=True)
    env = dict(os.environ, VERIF_REPO=wt, VERIF_JOBS='8', VERIF_EVIDENCE_DIR='/tmp/seed-evidence')
    q = subprocess.run(['./check', prop, '--tier', 'quick'], cwd='/verif', capture_output=True, text=True, env=env)
    lines = [l for l in q.stdout.split('\n') if l.startswith(('VIOLATION', 'KNOWN-FINDING', 'INCONCLUSIVE'))]
    subprocess.run('git -C /repo worktree remove --force %s' % wt, shell=True, capture_output=True)
    shutil.rmtree(wt, ignore_errors=True)
    res = {'exit': q.returncode, 'lines': lines[:6], 's': round(time.time() - t)}
    runs = meta.get('runs') or {}
    runs[prop] = res
    meta['runs'] = runs
    meta['detected_by'] = sorted(p for p, v in runs.items() if v['exit'] == 1)
    json.dump(meta, open(os.path.join(d, 'meta.json'), 'w'), indent=1)
    print(sid, prop, 'exit', q.returncode, res['s'], 's', flush=True)
    return sid, prop, res


with ThreadPoolExecutor(jobs) as ex:
    out = list(ex.map(one, seeds))
bad = [(s, p, r['exit']) for s, p, r in out if r['exit'] != 1]
print('NOT DETECTED:', bad)
