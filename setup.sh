#!/bin/sh
# Run once after a fresh restore, offline.  Nothing is prebuilt: every check rebuilds what it needs from
# /repo's working tree.  This only verifies that the pre-installed tools are reachable.
set -e
cd "$(dirname "$0")"
command -v cargo-kani >/dev/null
command -v cbmc >/dev/null
/usr/local/bin/python3-vt -c "import z3" 
rustup toolchain list | grep -q nightly
mkdir -p evidence cex
echo setup ok
